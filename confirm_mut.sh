#!/bin/bash
# ./confirm_mut.sh <worktree> <k> : confirm that mutant k compiles, passes the pinned suite,
# fails its demo, and that the pristine tree passes the demo.  Prints one summary line.
wt=$1; k=$2
cd "$wt" || exit 2
git checkout -q -- . ; 
git apply mutant$k.diff || { echo "RESULT $wt $k apply-failed"; exit 1; }
(make -j8 >/dev/null 2>&1 || make -j8 >/dev/null 2>&1); mk=$?
make -k check -j8 > check$k.log 2>&1
fails=$(grep -E '^# FAIL:' check$k.log | head -1 | awk '{print $3}')
total=$(grep -E '^# TOTAL:' check$k.log | head -1 | awk '{print $3}')
bash ./demo$k.sh > demo$k.mut.out 2>&1; dm=$?
git checkout -q -- .
(make -j8 >/dev/null 2>&1 || make -j8 >/dev/null 2>&1)
bash ./demo$k.sh > demo$k.pristine.out 2>&1; dp=$?
echo "RESULT $wt $k make=$mk total=$total fail=$fails demo_mutant_rc=$dm demo_pristine_rc=$dp"
