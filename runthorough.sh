#!/bin/bash
# ./runthorough.sh [props...] : run the thorough checks one after another, print the summary lines
cd /verif
props="$@"
[ -z "$props" ] && props=$(python3 -c "import json; print(' '.join(c['property_id'] for c in json.load(open('MANIFEST.json'))['checks']))")
for p in $props; do
  ./check $p --tier thorough --seed ${VERIF_SEED:-1} 2>&1 | grep -E "^(VIOLATION|  sig=|HARNESS|$p:)" | cut -c1-300 | tail -8
done
