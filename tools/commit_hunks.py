#!/usr/bin/env python3
"""commit_hunks.py MSGFILE FILE[:KEYWORD]...  -- stage the hunks of FILE that contain KEYWORD (all hunks when no
keyword) in /repo and commit them with the message in MSGFILE.  For splitting a working tree into one commit per fix."""
import subprocess, sys, re
msgfile = sys.argv[1]
patch = ""
for spec in sys.argv[2:]:
    f, _, kw = spec.partition(":")
    d = subprocess.run(["git", "-C", "/repo", "diff", "-U3", "--", f], capture_output=True, text=True).stdout
    if not d:
        print("no diff for", f); sys.exit(1)
    head, *hunks = re.split(r"(?m)^(?=@@ )", d)
    sel = [h for h in hunks if (not kw or kw in h)]
    if not sel:
        print("no hunk with", kw, "in", f); sys.exit(1)
    patch += head + "".join(sel)
r = subprocess.run(["git", "-C", "/repo", "apply", "--cached", "--recount", "-"], input=patch, text=True, capture_output=True)
if r.returncode:
    print(r.stderr); sys.exit(1)
subprocess.run(["git", "-C", "/repo", "commit", "-q", "-F", msgfile], check=True)
print(subprocess.run(["git", "-C", "/repo", "log", "--oneline", "-n1"], capture_output=True, text=True).stdout.strip())
