#!/usr/bin/env python3
"""rewrite the seeded-change table (between the MATRIX markers) and the repair list (FIXLIST markers) in DESIGN.md"""
import glob, json, re, subprocess
rows = ["| seeded change | property | touches | needs | caught by | missed at first |", "|---|---|---|---|---|---|"]
seeded = [json.load(open(f)) for f in sorted(glob.glob('/verif/seeded/*/meta.json'))]
for m in seeded:
    rows.append("| `%s` | %s | %s | %s | %s | %s |" % (m['id'], m['property'], ", ".join(m['files']), m.get('needs_to_manifest') or '-',
                                                      ", ".join(m['detected_by']), "yes" if m.get('initially_missed') else "no"))
log = subprocess.run(["git", "-C", "/repo", "log", "--reverse", "--format=%h %s", "00f5e3e..HEAD"], capture_output=True, text=True).stdout.strip().split("\n")
fixes = ["* `%s`" % l for l in log if " fix:" in l]
s = open('/verif/DESIGN.md').read()
s = re.sub(r"(<!-- MATRIX -->\n).*?(<!-- /MATRIX -->)", lambda m: m.group(1) + "\n".join(rows) + "\n" + m.group(2), s, flags=re.S)
s = re.sub(r"(<!-- FIXLIST -->\n).*?(<!-- /FIXLIST -->)", lambda m: m.group(1) + "\n".join(fixes) + "\n" + m.group(2), s, flags=re.S)
s = re.sub(r"<!-- NSEED -->\d+", "<!-- NSEED -->%d" % len(seeded), s)
s = re.sub(r"<!-- NMISS -->\d+", "<!-- NMISS -->%d" % sum(1 for m in seeded if m.get('initially_missed')), s)
s = re.sub(r"<!-- NFIX -->\d+", "<!-- NFIX -->%d" % len(fixes), s)
open('/verif/DESIGN.md', 'w').write(s)
print(len(seeded), "seeded,", len(fixes), "fixes")
