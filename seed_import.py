#!/usr/bin/env python3
"""seed_import.py <worktree> <k> <id> <property> <detected_by> <initially_missed:0|1> <needs...>"""
import json, shutil, sys, os, re
wt, k, sid, prop, det, missed = sys.argv[1:7]
needs = " ".join(sys.argv[7:])
d = "/verif/seeded/%s" % sid
os.makedirs(d, exist_ok=True)
shutil.copy("%s/mutant%s.diff" % (wt, k), d + "/patch.diff")
shutil.copy("%s/demo%s.sh" % (wt, k), d + "/demo.sh")
note = open("%s/note%s.txt" % (wt, k)).read()
open(d + "/note.txt", "w").write(note)
conf = ""
for ln in open(wt + ".confirm.log"):
    if ln.startswith("RESULT %s %s " % (wt, k)):
        conf = ln.strip()
files = re.findall(r"^\+\+\+ b/(\S+)", open(d + "/patch.diff").read(), re.M)
meta = dict(id=sid, property=prop, files=files, needs_to_manifest=needs,
            author="independent sub-agent given only the property text and a scratch worktree",
            confirmed=dict(how="confirm_mut.sh in a scratch worktree: git apply, make, make -k check (890 tests), demo.sh with and without the change",
                           result=conf),
            ran=["./mutcheck.sh seeded/%s/patch.diff %s" % (sid, det.replace(",", " "))],
            detected_by=det.split(","), initially_missed=bool(int(missed)))
json.dump(meta, open(d + "/meta.json", "w"), indent=1)
print("imported", sid)
