/* dutdrv - thin line-protocol driver around the real dateutils library.
 * No oracle, no expectations: it only marshals.  Every string handed to the
 * library is an exact-size heap copy, every output buffer an exact-size heap
 * block, so that the first byte read behind a terminator or written behind
 * the buffer hits an ASan red zone.
 *
 * request : CMD \t field \t field ...        (fields escaped: \\ \t \n \xNN; "-" = NULL)
 * answer  : one line per request, flushed.
 *
 *  P  ifmt text                 -> OK consumed kind daisy sod ns fix | UNK consumed
 *  F  ifmt text ofmt bsz        -> OK n hex(out) | UNK
 *  R  repr daisy sod fmt bsz    -> OK n hex(out) consumed kind daisy sod | UNK n hex(out)
 *        build the day (daisy count, sod or -) in representation repr
 *        (ymd ymcw ywd yd daisy ldn mdn jdn bizda sexy), print with fmt, parse back with fmt
 *  A  ifmt text ofmt dur...     -> OK hex(out) fix | UNK | BADDUR i
 *  C  ifmt a b                  -> OK cmp inrange_a_in_[a,b] | UNK
 *  U  text fmt bsz              -> OK consumed durtyp dv neg n hex(out) | UNK consumed
 *  L  arr key                   -> OK idx corr      (arr: s=leaps_s d=leaps_d)
 *  B  text                      -> OK               (dt_set_base of the parsed text)
 *  V  from to daisy             -> OK hex(default text of the conversion chain)  (dt_dconv)
 */
#include <stdio.h>
#include <stdlib.h>
#include <string.h>
#include <stdint.h>
#include <inttypes.h>
#include <errno.h>
#include "dt-core.h"
#include "date-core.h"
#include "time-core.h"
#include "dt-core-tz-glue.h"
#include "dt-io.h"
#include "leaps.h"
#include "leap-seconds.h"
#include "dt-locale.h"

#define MAXF 64

const char *prog = "dutdrv";

static char *
unesc(const char *s, size_t n, size_t *outlen)
{
/* exact-size heap copy of the unescaped field, NUL terminated */
	char *tmp = malloc(n + 1U);
	size_t o = 0U;
	char *res;

	for (size_t i = 0U; i < n; i++) {
		if (s[i] == '\\' && i + 1U < n) {
			switch (s[++i]) {
			case 't':
				tmp[o++] = '\t';
				break;
			case 'n':
				tmp[o++] = '\n';
				break;
			case '\\':
				tmp[o++] = '\\';
				break;
			case 'x':
				if (i + 2U < n) {
					char hx[3] = {s[i + 1U], s[i + 2U], 0};
					tmp[o++] = (char)strtoul(hx, NULL, 16);
					i += 2U;
				}
				break;
			default:
				tmp[o++] = s[i];
				break;
			}
		} else {
			tmp[o++] = s[i];
		}
	}
	res = malloc(o + 1U);
	memcpy(res, tmp, o);
	res[o] = '\0';
	free(tmp);
	if (outlen) {
		*outlen = o;
	}
	return res;
}

static void
puthex(const char *b, size_t n)
{
	static const char hx[] = "0123456789abcdef";
	if (n == 0U) {
		putchar('-');
		return;
	}
	for (size_t i = 0U; i < n; i++) {
		putchar(hx[(unsigned char)b[i] >> 4U]);
		putchar(hx[(unsigned char)b[i] & 0xfU]);
	}
	return;
}

static void
put_value(struct dt_dt_s d)
{
/* kind daisy sod ns fix */
	const char *kind;
	long int daisy = -1;
	long int sod = -1;
	long int ns = 0;

	if (d.typ == DT_SEXY || d.typ == DT_SEXYTAI) {
		kind = d.typ == DT_SEXY ? "sexy" : "sexytai";
		printf("%s %" PRIi64 " - 0 %u", kind, (int64_t)d.sexy, (unsigned)d.fix);
		return;
	} else if (dt_sandwich_p(d)) {
		kind = "dt";
	} else if (dt_sandwich_only_d_p(d)) {
		kind = "d";
	} else if (dt_sandwich_only_t_p(d)) {
		kind = "t";
	} else {
		kind = "other";
	}
	if (kind[0] == 'd') {
		struct dt_d_s dd = dt_dconv(DT_DAISY, d.d);
		daisy = (long int)dd.daisy;
	}
	if (!strcmp(kind, "dt") || kind[0] == 't') {
		sod = (long int)d.t.hms.h * 3600L + (long int)d.t.hms.m * 60L + (long int)d.t.hms.s;
		ns = (long int)d.t.hms.ns;
	}
	printf("%s/%u %ld %ld %ld %u", kind, (unsigned)d.d.typ, daisy, sod, ns, (unsigned)d.fix);
	return;
}

static struct dt_dt_s
parse(const char *ifmt, const char *text, char **ep)
{
	if (ifmt == NULL) {
		return dt_io_strpdt_ep(text, NULL, 0U, ep, NULL);
	}
	return dt_strpdt(text, ifmt, ep);
}

static dt_dtyp_t
repr_typ(const char *r)
{
	if (!strcmp(r, "ymd")) {
		return DT_YMD;
	} else if (!strcmp(r, "ymcw")) {
		return DT_YMCW;
	} else if (!strcmp(r, "ywd")) {
		return DT_YWD;
	} else if (!strcmp(r, "yd")) {
		return DT_YD;
	} else if (!strcmp(r, "daisy")) {
		return DT_DAISY;
	} else if (!strcmp(r, "ldn")) {
		return DT_LDN;
	} else if (!strcmp(r, "mdn")) {
		return DT_MDN;
	} else if (!strcmp(r, "jdn")) {
		return DT_JDN;
	} else if (!strcmp(r, "bizda")) {
		return DT_BIZDA;
	} else if (!strcmp(r, "hijri")) {
		return DT_UMMULQURA;
	}
	return DT_DUNK;
}

int
main(void)
{
	char *line = NULL;
	size_t llen = 0U;
	ssize_t nrd;

	setvbuf(stdout, NULL, _IOFBF, 1 << 16);
	while ((nrd = getline(&line, &llen, stdin)) > 0) {
		char *f[MAXF];
		size_t fl[MAXF];
		size_t nf = 0U;
		const char *p = line;
		const char *const e = line + nrd - (line[nrd - 1] == '\n');

		while (p <= e && nf < MAXF) {
			const char *q = memchr(p, '\t', e - p);
			if (q == NULL) {
				q = e;
			}
			if (q - p == 1 && *p == '-') {
				f[nf] = NULL;
				fl[nf] = 0U;
			} else {
				f[nf] = unesc(p, q - p, &fl[nf]);
			}
			nf++;
			p = q + 1;
		}
		if (nf == 0U || f[0] == NULL) {
			puts("ERR empty");
			goto next;
		}
		switch (f[0][0]) {
		case 'P': {
			char *ep = NULL;
			struct dt_dt_s d;
			if (nf < 3U || f[2] == NULL) {
				puts("ERR args");
				break;
			}
			d = parse(f[1], f[2], &ep);
			if (dt_unk_p(d)) {
				printf("UNK %ld\n", ep ? (long)(ep - f[2]) : -1L);
				break;
			}
			printf("OK %ld ", ep ? (long)(ep - f[2]) : -1L);
			put_value(d);
			putchar('\n');
			break;
		}
		case 'F': {
			struct dt_dt_s d;
			size_t bsz, n;
			char *buf;
			if (nf < 5U || f[2] == NULL || f[4] == NULL) {
				puts("ERR args");
				break;
			}
			d = parse(f[1], f[2], NULL);
			if (dt_unk_p(d)) {
				puts("UNK");
				break;
			}
			bsz = strtoul(f[4], NULL, 10);
			buf = malloc(bsz ? bsz : 1U);
			n = dt_strfdt(buf, bsz, f[3], d);
			printf("OK %zu ", n);
			puthex(buf, n < bsz ? n : bsz);
			putchar('\n');
			free(buf);
			break;
		}
		case 'R': {
			struct dt_dt_s d = {DT_UNK};
			struct dt_dt_s back;
			dt_dtyp_t ty;
			size_t bsz, n;
			char *buf, *txt, *ep = NULL;
			if (nf < 6U || f[1] == NULL || f[2] == NULL || f[5] == NULL) {
				puts("ERR args");
				break;
			}
			bsz = strtoul(f[5], NULL, 10);
			if (!strcmp(f[1], "sexy")) {
				long long dz = strtoll(f[2], NULL, 10);
				long sod = f[3] ? strtol(f[3], NULL, 10) : 0;
				d.typ = DT_SEXY;
				d.sexy = (dz - 134775LL) * 86400LL + sod;
			} else {
				struct dt_d_s dd = {DT_DAISY};
				ty = repr_typ(f[1]);
				dd.daisy = (dt_daisy_t)strtoul(f[2], NULL, 10);
				if (ty != DT_DAISY) {
					dd = dt_dconv(ty, dd);
				}
				if (f[3] != NULL) {
					long sod = strtol(f[3], NULL, 10);
					dt_make_sandwich(&d, dd.typ, DT_HMS);
					d.d = dd;
					d.sandwich = 1;
					d.t.typ = DT_HMS;
					d.t.hms.h = sod / 3600;
					d.t.hms.m = sod / 60 % 60;
					d.t.hms.s = sod % 60;
				} else {
					d.d = dd;
					dt_make_d_only(&d, dd.typ);
				}
			}
			buf = malloc(bsz ? bsz : 1U);
			n = dt_strfdt(buf, bsz, f[4], d);
			if (n >= bsz) {
				printf("TRUNC %zu ", n);
				puthex(buf, bsz);
				putchar('\n');
				free(buf);
				break;
			}
			/* exact-size copy of the text */
			txt = malloc(n + 1U);
			memcpy(txt, buf, n);
			txt[n] = '\0';
			back = f[4] ? dt_strpdt(txt, f[4], &ep) : dt_io_strpdt_ep(txt, NULL, 0U, &ep, NULL);
			if (dt_unk_p(back)) {
				printf("UNK %zu ", n);
				puthex(buf, n);
				putchar('\n');
			} else {
				printf("OK %zu ", n);
				puthex(buf, n);
				printf(" %ld ", ep ? (long)(ep - txt) : -1L);
				put_value(back);
				putchar('\n');
			}
			free(txt);
			free(buf);
			break;
		}
		case 'A': {
			struct dt_dt_s d;
			struct __strpdtdur_st_s st = {0};
			char buf[256];
			size_t n;
			int bad = -1;
			if (nf < 4U || f[2] == NULL) {
				puts("ERR args");
				break;
			}
			d = dt_io_strpdt(f[2], f[1] ? &f[1] : NULL, f[1] ? 1U : 0U, NULL);
			if (dt_unk_p(d)) {
				puts("UNK");
				break;
			}
			for (size_t i = 4U; i < nf && bad < 0; i++) {
				if (f[i] == NULL) {
					continue;
				}
				do {
					if (dt_io_strpdtdur(&st, f[i]) < 0) {
						bad = (int)i - 4;
						break;
					}
				} while (__strpdtdur_more_p(&st));
			}
			if (bad >= 0) {
				printf("BADDUR %d\n", bad);
				__strpdtdur_free(&st);
				break;
			}
			for (size_t i = 0U; i < st.ndurs; i++) {
				d = dt_dtadd(d, st.durs[i]);
			}
			n = dt_strfdt(buf, sizeof(buf), f[3], d);
			printf("OK ");
			puthex(buf, n);
			printf(" %u\n", (unsigned)d.fix);
			__strpdtdur_free(&st);
			break;
		}
		case 'C': {
			struct dt_dt_s a, b;
			if (nf < 4U || f[2] == NULL || f[3] == NULL) {
				puts("ERR args");
				break;
			}
			a = dt_io_strpdt(f[2], f[1] ? &f[1] : NULL, f[1] ? 1U : 0U, NULL);
			b = dt_io_strpdt(f[3], f[1] ? &f[1] : NULL, f[1] ? 1U : 0U, NULL);
			if (dt_unk_p(a) || dt_unk_p(b)) {
				puts("UNK");
				break;
			}
			printf("OK %d %d\n", dt_dtcmp(a, b), dt_dt_in_range_p(a, a, b));
			break;
		}
		case 'U': {
			struct dt_dtdur_s du;
			char *ep = NULL;
			size_t bsz, n;
			char *buf;
			if (nf < 4U || f[1] == NULL || f[3] == NULL) {
				puts("ERR args");
				break;
			}
			du = dt_strpdtdur(f[1], &ep);
			if (dt_durunk_p(du)) {
				printf("UNK %ld\n", ep ? (long)(ep - f[1]) : -1L);
				break;
			}
			bsz = strtoul(f[3], NULL, 10);
			buf = malloc(bsz ? bsz : 1U);
			n = dt_strfdtdur(buf, bsz, f[2], du);
			printf("OK %ld %u %" PRIi64 " %u %zu ", ep ? (long)(ep - f[1]) : -1L,
			       (unsigned)du.durtyp,
			       du.durtyp < (dt_dtdurtyp_t)DT_NDURTYP ? (int64_t)du.d.dv : (int64_t)du.dv,
			       (unsigned)du.neg, n);
			puthex(buf, n < bsz ? n : bsz);
			putchar('\n');
			free(buf);
			break;
		}
		case 'L': {
			zidx_t zi;
			long long key;
			if (nf < 3U || f[1] == NULL || f[2] == NULL) {
				puts("ERR args");
				break;
			}
			key = strtoll(f[2], NULL, 10);
			if (f[1][0] == 's') {
				zi = leaps_before_si32(leaps_s, nleaps, (int32_t)key);
			} else {
				zi = leaps_before_ui32(leaps_d, nleaps, (uint32_t)key);
			}
			printf("OK %zu %d %zu\n", (size_t)zi, (int)leaps_corr[zi], (size_t)nleaps);
			break;
		}
		case 'B': {
			struct dt_dt_s b;
			if (nf < 2U || f[1] == NULL) {
				puts("ERR args");
				break;
			}
			b = dt_strpdt(f[1], NULL, NULL);
			if (dt_unk_p(b)) {
				puts("UNK");
				break;
			}
			dt_set_base(b);
			puts("OK");
			break;
		}
		case 'V': {
			/* V chain daisy : chain = comma separated representations */
			struct dt_d_s dd = {DT_DAISY};
			char buf[64];
			size_t n;
			char *tok, *sv = NULL;
			if (nf < 3U || f[1] == NULL || f[2] == NULL) {
				puts("ERR args");
				break;
			}
			dd.daisy = (dt_daisy_t)strtoul(f[2], NULL, 10);
			for (tok = strtok_r(f[1], ",", &sv); tok; tok = strtok_r(NULL, ",", &sv)) {
				dt_dtyp_t ty = repr_typ(tok);
				if (ty == DT_DUNK) {
					break;
				}
				dd = dt_dconv(ty, dd);
			}
			dd = dt_dconv(DT_DAISY, dd);
			n = (size_t)snprintf(buf, sizeof(buf), "%u", (unsigned)dd.daisy);
			printf("OK %.*s\n", (int)n, buf);
			break;
		}
		case 'E': {
			/* E text : dt_io_unescape() in place on the exact-size copy */
			if (nf < 2U || f[1] == NULL) {
				puts("ERR args");
				break;
			}
			dt_io_unescape(f[1]);
			printf("OK ");
			puthex(f[1], strlen(f[1]));
			putchar('\n');
			break;
		}
		case 'Q':
			goto out;
		default:
			puts("ERR cmd");
			break;
		}
	next:
		fflush(stdout);
		for (size_t i = 0U; i < nf; i++) {
			free(f[i]);
		}
	}
out:
	free(line);
	return 0;
}
