/* zifdrv - line-protocol driver around the real TZif reader (lib/tzraw.c).
 * Marshals only.  One request per line, one answer per line, flushed.
 *   O <path>  zif_open          -> OK <ntrans> | NULL
 *   L <t>     zif_local_time    -> <t'>
 *   U <t>     zif_utc_time      -> <t'>
 *   R <t>     zif_find_zrng     -> <prev> <next> <offs> <trno>
 *   T <i>     zif_troffs        -> <offs>
 *   N         zif_ntrans        -> <n>
 *   C         zif_copy, continue on the copy (original closed) -> OK | NULL
 *   X         zif_close         -> OK
 */
#include <stdio.h>
#include <stdlib.h>
#include <string.h>
#include <inttypes.h>
#include "tzraw.h"

const char *prog = "zifdrv";

int
main(void)
{
	char *line = NULL;
	size_t llen = 0U;
	ssize_t nrd;
	zif_t z = NULL;

	setvbuf(stdout, NULL, _IOFBF, 1 << 16);
	while ((nrd = getline(&line, &llen, stdin)) > 0) {
		long long t = 0;

		if (line[nrd - 1] == '\n') {
			line[--nrd] = '\0';
		}
		if (nrd > 2) {
			t = strtoll(line + 2, NULL, 10);
		}
		switch (line[0]) {
		case 'O': {
			/* exact-size heap copy of the file name */
			size_t n = strlen(line + 2);
			char *fn = malloc(n + 1U);
			memcpy(fn, line + 2, n + 1U);
			if (z != NULL) {
				zif_close(z);
			}
			z = zif_open(fn);
			free(fn);
			if (z == NULL) {
				puts("NULL");
			} else {
				printf("OK %zu\n", zif_ntrans(z));
			}
			break;
		}
		case 'L':
			if (z == NULL) {
				puts("NOZONE");
				break;
			}
			printf("%" PRIi64 "\n", (int64_t)zif_local_time(z, (stamp_t)t));
			break;
		case 'U':
			if (z == NULL) {
				puts("NOZONE");
				break;
			}
			printf("%" PRIi64 "\n", (int64_t)zif_utc_time(z, (stamp_t)t));
			break;
		case 'R': {
			struct zrng_s r;
			if (z == NULL) {
				puts("NOZONE");
				break;
			}
			r = zif_find_zrng(z, (stamp_t)t);
			printf("%" PRIi64 " %" PRIi64 " %d %u\n",
			       (int64_t)r.prev, (int64_t)r.next, (int)r.offs, (unsigned)r.trno);
			break;
		}
		case 'T':
			if (z == NULL) {
				puts("NOZONE");
				break;
			}
			printf("%d\n", zif_troffs(z, (int)t));
			break;
		case 'N':
			if (z == NULL) {
				puts("NOZONE");
				break;
			}
			printf("%zu\n", zif_ntrans(z));
			break;
		case 'C': {
			zif_t c;
			if (z == NULL) {
				puts("NOZONE");
				break;
			}
			c = zif_copy(z);
			if (c == NULL) {
				puts("NULL");
				break;
			}
			zif_close(z);
			z = c;
			puts("OK");
			break;
		}
		case 'X':
			if (z != NULL) {
				zif_close(z);
				z = NULL;
			}
			puts("OK");
			break;
		default:
			puts("ERR");
			break;
		}
		fflush(stdout);
	}
	if (z != NULL) {
		zif_close(z);
	}
	free(line);
	return 0;
}
