/* tzmdrv - line-protocol driver around the compiled zone map reader (lib/tzmap.c)
 *   O <path>  tzm_open  -> OK | NULL
 *   F <key>   tzm_find  -> OK <zone> | NULL       (key escaped like dutdrv fields: \xNN)
 *   X         tzm_close -> OK
 */
#include <stdio.h>
#include <stdlib.h>
#include <string.h>
#include "tzmap.h"

const char *prog = "tzmdrv";

static char *
unesc(const char *s)
{
	size_t n = strlen(s);
	char *tmp = malloc(n + 1U);
	size_t o = 0U;
	char *res;

	for (size_t i = 0U; i < n; i++) {
		if (s[i] == '\\' && i + 3U < n + 1U && s[i + 1U] == 'x') {
			char hx[3] = {s[i + 2U], s[i + 3U], 0};
			tmp[o++] = (char)strtoul(hx, NULL, 16);
			i += 3U;
		} else {
			tmp[o++] = s[i];
		}
	}
	/* exact-size copy */
	res = malloc(o + 1U);
	memcpy(res, tmp, o);
	res[o] = '\0';
	free(tmp);
	return res;
}

int
main(void)
{
	char *line = NULL;
	size_t llen = 0U;
	ssize_t nrd;
	tzmap_t m = NULL;

	setvbuf(stdout, NULL, _IOFBF, 1 << 16);
	while ((nrd = getline(&line, &llen, stdin)) > 0) {
		if (line[nrd - 1] == '\n') {
			line[--nrd] = '\0';
		}
		switch (line[0]) {
		case 'O': {
			char *fn = unesc(line + 2);
			if (m != NULL) {
				tzm_close(m);
			}
			m = tzm_open(fn);
			free(fn);
			puts(m ? "OK" : "NULL");
			break;
		}
		case 'F': {
			char *key;
			const char *zn;
			if (m == NULL) {
				puts("NOMAP");
				break;
			}
			key = unesc(nrd > 2 ? line + 2 : "");
			zn = tzm_find(m, key);
			if (zn == NULL) {
				puts("NULL");
			} else {
				/* bounded print: the name must be NUL terminated inside the image */
				printf("OK %.4096s\n", zn);
			}
			free(key);
			break;
		}
		case 'X':
			if (m != NULL) {
				tzm_close(m);
				m = NULL;
			}
			puts("OK");
			break;
		default:
			puts("ERR");
			break;
		}
		fflush(stdout);
	}
	if (m != NULL) {
		tzm_close(m);
	}
	free(line);
	return 0;
}
