#!/bin/bash
# ./mutcheck.sh <patch.diff> <prop> [<prop>...] : apply a seeded change to /repo, run the quick checks, undo.
set -u
patch=$1; shift
cd /repo || exit 2
if ! git diff --quiet; then echo "/repo has uncommitted changes, refusing"; exit 2; fi
git apply "$patch" || { echo "patch does not apply"; exit 2; }
trap 'git -C /repo checkout -- . ' EXIT
cd /verif
for p in "$@"; do
  out=$(./check "$p" 2>&1); rc=$?
  echo "== $p rc=$rc"
  echo "$out" | grep -E '^(VIOLATION|  sig=|HARNESS|C[0-9]+:)' | cut -c1-260 | head -${MUTLINES:-12}
done
