"""./check replay <file.json> : re-run a recorded witness against the current tree"""
import json
import os
import sys

from . import build, core


def main(argv):
    if not argv:
        print("usage: ./check replay <replay.json>")
        return 2
    rec = json.load(open(argv[0]))
    print("property :", rec.get("property"))
    print("signature:", rec.get("signature"))
    print("recorded :", rec.get("description"))
    args = rec.get("argv") or rec.get("dadd")
    if not args:
        print("this record carries no command line (see its fields); NOT-REPLAYABLE")
        print(json.dumps({k: v for k, v in rec.items() if k not in ("stderr",)}, indent=1)[:4000])
        return 2
    variant = rec.get("variant", "san")
    bindir = build.build(variant)
    a0 = os.path.basename(args[0])
    args = [str(bindir / a0)] + list(args[1:])
    stdin = b""
    if rec.get("stdin_hex"):
        stdin = bytes.fromhex(rec["stdin_hex"])
    elif rec.get("input") is not None:
        stdin = (rec["input"] + "\n").encode("latin-1")
    elif rec.get("stdin") is not None:
        stdin = (rec["stdin"] + "\n").encode("latin-1")
    if rec.get("regen"):
        # the stream is rebuilt from its generator seed, the baseline output is the model's
        import importlib
        mod = importlib.import_module("dverif.props." + rec["regen"]["module"])
        _a0, stdin, model = mod.regen(rec)
        rec = dict(rec)
        if not (rec.get("env") or {}).get("VERIF_READ_SCHED"):
            rec["expected_bytes"] = model
        else:
            rb = core.run(args, stdin=stdin, env={}, cpu=120, wall=600)
            rec["expected_bytes"] = rb.out
    files = rec.get("files") or {}
    tmpd = None
    if files:
        import tempfile
        tmpd = tempfile.mkdtemp(prefix="verif-replay-")
        for name, hx in files.items():
            with open(os.path.join(tmpd, name), "wb") as fp:
                fp.write(bytes.fromhex(hx))
        args = [a.replace("{dir}", tmpd) for a in args]
    r = core.run(args, stdin=stdin, env=rec.get("env") or {}, cpu=120 if rec.get("regen") else 30, wall=600)
    if rec.get("expected_bytes") is not None:
        same = r.out == rec["expected_bytes"]
        print("command  :", core.shq(args), "< regenerated stream of %d bytes" % len(stdin))
        print("exit     : rc=%s signal=%s sanitizer=%s" % (r.rc, r.sig, r.san_kind()))
        print("verdict  :", "NOT-REPRODUCED (output equals the reference)" if same and not r.san_kind() else
              "REPRODUCED (%d output bytes, reference %d)" % (len(r.out), len(rec["expected_bytes"])))
        return 0
    out = r.out.decode("latin-1")
    print("command  :", core.shq(args))
    print("exit     : rc=%s signal=%s sanitizer=%s" % (r.rc, r.sig, r.san_kind()))
    print("stdout   :", out[:2000].rstrip("\n"))
    if r.err:
        print("stderr   :", r.err.decode("latin-1")[-1500:])
    exp = rec.get("expected")
    obs = rec.get("observed")
    got = out.strip("\n")
    verdict = None
    if exp is not None:
        exps = exp if isinstance(exp, list) else [exp]
        exps = [str(e) for e in exps]
        if got in exps or any(got.split("\n")[-1] == e for e in exps):
            verdict = "NOT-REPRODUCED (output now matches the oracle)"
        else:
            verdict = "REPRODUCED (output %r, oracle expects %s)" % (got[:200], exps[:3])
    elif rec.get("sig") is not None or "died" in (rec.get("signature") or "") or "san" in (rec.get("signature") or ""):
        verdict = "REPRODUCED" if (r.sig is not None or r.san_kind()) else "NOT-REPRODUCED"
    print("verdict  :", verdict or "see output above (record has no machine-checkable expectation)")
    if tmpd:
        import shutil
        shutil.rmtree(tmpd, ignore_errors=True)
    return 0


if __name__ == "__main__":
    sys.exit(main(sys.argv[1:]))
