"""shared by C05/C06: groups of instants and `ddiff ANCHOR -f FMT < partners` rows"""
import re
from datetime import date

from .core import Shard, run, align_lines, res_replay
from .oracle import cal

EP_MIN = (cal.ORD_MIN - cal.ORD_UNIX) * 86400
EP_MAX = (cal.ORD_MAX - cal.ORD_UNIX) * 86400 + 86399
SECS = {"w": 604800, "d": 86400, "H": 3600, "M": 60, "S": 1}
ORDER = "YmwdHMS"


def ep(o, sod=0):
    return (o - cal.ORD_UNIX) * 86400 + sod


def split(e):
    d, s = divmod(e, 86400)
    return d + cal.ORD_UNIX, s


def hms(s):
    return "%02d:%02d:%02d" % (s // 3600, s // 60 % 60, s % 60)


def text(e, with_time, spelling="ymd"):
    if spelling == "epoch":
        return "@%d" % e
    o, s = split(e)
    D = cal.Day(o)
    t = {"ymd": D.ymd, "ywd": D.ywd, "yd": D.yd, "ymcw": D.ymcw}[spelling]()
    return t + ("T" + hms(s) if with_time else "")


def make_group(rng, with_time, size=36, dom_max=28):
    """a cluster of instants around a centre: dense neighbours, unit-boundary
    offsets, and a few far away; all with day-of-month <= dom_max"""
    while True:
        y = rng.choice([rng.randrange(1601, 4094), rng.randrange(1990, 2040), rng.choice([1700, 1900, 2000, 2100, 2400])])
        m = rng.randrange(1, 13)
        d = rng.randrange(1, dom_max + 1)
        if d <= cal.mdays(y, m):
            break
    k = rng.random()
    if k < .2:
        # last day of February: where month lengths differ a borrowed day matters
        m, d = 2, min(dom_max, cal.mdays(y, 2))
    elif k < .3:
        # Sunday of the last ISO week of a year (when its day-of-month qualifies)
        o = date(y, 12, 28).toordinal()
        o += 6 - (o - 1) % 7
        dd = date.fromordinal(o)
        if dd.day <= dom_max and 1601 <= dd.year <= 4095:
            y, m, d = dd.year, dd.month, dd.day
    elif k < .4:
        # a day of an ISO week 53 (most years have none: week differences must borrow 52 or 53)
        for yy in range(y, min(y + 12, 4094)):
            if date(yy, 12, 28).isocalendar()[1] == 53:
                o = date(yy, 12, 28).toordinal()
                o -= (o - 1) % 7
                cands = [date.fromordinal(o + i) for i in range(7)]
                cands = [dd for dd in cands if dd.day <= dom_max and dd.year <= 4095]
                if cands:
                    dd = rng.choice(cands)
                    y, m, d = dd.year, dd.month, dd.day
                break
    c = ep(date(y, m, d).toordinal(), rng.choice([0, 1, 43200, 86399, rng.randrange(86400)]) if with_time else 0)
    out = {c}
    offs_d = list(range(-9, 10)) + [-40, -31, -30, -29, -28, 27, 28, 29, 30, 31, 59, 60, 61, 365, 366, 367, -365, -366, 364, 371, 728, 735, -364, -371,
                                    1461, 36524, 146097, -36525]
    offs_s = [1, 59, 60, 61, 3599, 3600, 3601, 86399, 86400, 86401, 604799, 604800, 604801]
    tries = 0
    while len(out) < size and tries < 4000:
        tries += 1
        k = rng.random()
        if k < .5:
            e = c + rng.choice(offs_d) * 86400 + (rng.choice([0, 0, 1, -1, 3600, -3600, rng.randrange(-86399, 86400)]) if with_time else 0)
        elif k < .75 and with_time:
            e = c + rng.choice([1, -1]) * rng.choice(offs_s)
        elif k < .9:
            e = c + rng.choice([1, -1]) * int(10 ** rng.uniform(0, 5.9)) * 86400 + (rng.randrange(86400) if with_time else 0)
        else:
            e = c + rng.choice([1, -1]) * rng.randrange(0, 500) * 86400 + (rng.randrange(86400) if with_time else 0)
        if not (EP_MIN <= e <= EP_MAX):
            continue
        o, s = split(e)
        if date.fromordinal(o).day > dom_max:
            continue
        out.add(e)
    return sorted(out)


def row_task(task):
    """-> (key, outs, Shard) ; one `ddiff ANCHOR -f FMT` process with the partners on stdin"""
    bindir, key, fmt, anchor, partners = task
    sh = Shard()
    argv = [str(bindir / "ddiff"), anchor, "-f", fmt]
    r = run(argv, stdin=("\n".join(partners) + "\n").encode(), cpu=30, wall=120)
    sh.procs += 1
    sh.check_san(r, "san", "ddiff:san")
    outs, crash = align_lines(partners, r)
    if crash is not None and crash >= 0:
        r.stdin = (partners[crash] + "\n").encode()
        sh.bad("ddiff", "ddiff:died:%s" % (r.san_kind() or r.sig or r.rc),
               "ddiff %s %s -f %r died/stalled" % (anchor, partners[crash], fmt), res_replay(r))
    outs = outs + [None] * (len(partners) - len(outs))
    return key, outs, sh


_NUM = re.compile(r"-?\s*\d+")


def parse_components(fmt_units, got):
    """fmt_units: list of unit letters in format order; got: printed text.
    -> (sign, {unit: magnitude}, nminus) or None"""
    nums = _NUM.findall(got)
    if len(nums) != len(fmt_units):
        return None
    vals = {}
    nminus = 0
    neg_first = nums[0].startswith("-")
    for i, (u, n) in enumerate(zip(fmt_units, nums)):
        if n.startswith("-"):
            nminus += 1
        vals[u] = abs(int(n.lstrip("-").strip()))
    return (-1 if neg_first else 1), vals, nminus
