"""Check context: events, verdicts, known findings, evidence, replay files."""
import fnmatch
import hashlib
import json
import os
import random
import re
import resource
import shlex
import signal
import subprocess
import sys
import time
from collections import Counter, OrderedDict
from concurrent.futures import ProcessPoolExecutor, ThreadPoolExecutor
from pathlib import Path

from . import build as _build

VERIF = Path(__file__).resolve().parent.parent
REPO = _build.REPO
EVID = VERIF / "evidence"
KNOWN = VERIF / "KNOWN_FINDINGS.txt"
NPROC = int(os.environ.get("VERIF_JOBS", "16"))

SAN_ENV = {
    "ASAN_OPTIONS": "abort_on_error=1:halt_on_error=1:detect_leaks=0:"
                    "detect_stack_use_after_return=1:strict_string_checks=1:"
                    "allocator_may_return_null=1:max_malloc_fill_size=0",
    "UBSAN_OPTIONS": "print_stacktrace=1",
}

BASE_ENV = {
    "PATH": "/usr/bin:/bin",
    "LC_ALL": "C",
    "TZ": "UTC",
    "LOCALE_FILE": str(REPO / "data" / "locale"),
}


class Res:
    __slots__ = ("argv", "rc", "sig", "out", "err", "cpu_exceeded", "timed_out",
                 "truncated", "stdin", "env")

    def san_kind(self):
        return san_signature(self.err)

    @property
    def crashed(self):
        return self.sig is not None and not self.cpu_exceeded and not self.timed_out


# UBSan `bounds` reports that are NOT buffer overruns: the Hijri month-begin
# table _bom[133][12] is deliberately indexed [y][12] to reach [y+1][0] (the
# rows are contiguous, the last row is guarded); the access stays inside the
# one table object, so no property is violated.
BENIGN_UB = [(b"ummulqura.c", b"index 12 out of bounds for type 'uint32_t [12]'")]

_FRAME = re.compile(rb"#\d+ 0x[0-9a-f]+ in (\S+) (\S+?):\d+")


def san_signature(err):
    """-> None | short signature of a sanitizer / probe report found in stderr"""
    if not err:
        return None
    m = re.search(rb"VERIF-INVARIANT site=(\S+) what=(\S+)", err)
    if m:
        return "probe:%s:%s" % (m.group(1).decode(), m.group(2).decode())
    kind = None
    m = re.search(rb"ERROR: AddressSanitizer: ([a-zA-Z0-9_-]+)", err)
    if m:
        kind = "asan:" + m.group(1).decode()
        if m.group(1) == b"attempting":
            m2 = re.search(rb"attempting ([a-z-]+)", err)
            kind = "asan:" + (m2.group(1).decode() if m2 else "bad-free")
        if m.group(1) == b"SEGV":
            kind = "asan:SEGV"
        # frames of THIS report only (earlier recoverable reports may precede it)
        err = err[m.start():]
    else:
        for m in re.finditer(rb"([^\n/]*\.[chyl]):\d+:\d+: runtime error: ([^\n]*)", err):
            if any(f == m.group(1) and pat in m.group(2) for f, pat in BENIGN_UB):
                continue
            w = m.group(2).decode("latin-1").strip().split()
            kind = "ubsan:" + "-".join(x for x in w[:4] if not x.lstrip("-").isdigit())
            err = err[m.start():]
            break
    if kind is None:
        return None
    func = "?"
    for fm in _FRAME.finditer(err):
        path = fm.group(2)
        if b"/.build/" in path or path.startswith(bytes(str(REPO), "ascii")) or b"/drivers/" in path:
            if b"/shim/" in path:
                continue
            func = fm.group(1).decode()
            break
    return "%s@%s" % (kind, func)


def _preexec(cpu, mem):
    def f():
        resource.setrlimit(resource.RLIMIT_CPU, (cpu, cpu + 1))
        resource.setrlimit(resource.RLIMIT_CORE, (0, 0))
        if mem:
            pass
        os.setsid()
    return f


def run(argv, stdin=b"", env=None, cpu=10, wall=120, max_out=64 << 20):
    """run one process under rlimits -> Res"""
    e = dict(BASE_ENV)
    e.update(SAN_ENV)
    if env:
        for k, v in env.items():
            if v is None:
                e.pop(k, None)
            else:
                e[k] = v
    r = Res()
    r.argv = [str(a) if not isinstance(a, bytes) else a for a in argv]
    fobj = None
    if hasattr(stdin, "fileno"):
        # deliver stdin from a file: read() results do not depend on pipe timing
        fobj, stdin = stdin, None
    r.stdin = stdin if fobj is None else b""
    r.env = env or {}
    r.cpu_exceeded = r.timed_out = r.truncated = False
    try:
        p = subprocess.Popen(r.argv, stdin=subprocess.PIPE if fobj is None else fobj, stdout=subprocess.PIPE,
                             stderr=subprocess.PIPE, env=e, preexec_fn=_preexec(cpu, 0))
    except OSError as ex:
        # the binary is not there (any more): nothing was observed, this is the harness's failure, never a verdict
        raise RuntimeError("harness: cannot execute %r: %s" % (r.argv[:1], ex))
    try:
        out, err = p.communicate(stdin, timeout=wall)
    except subprocess.TimeoutExpired:
        try:
            os.killpg(p.pid, signal.SIGKILL)
        except OSError:
            pass
        out, err = p.communicate()
        r.timed_out = True
    rc = p.returncode
    if rc < 0:
        r.sig = -rc
        r.rc = None
        if r.sig in (signal.SIGXCPU, signal.SIGKILL) and not r.timed_out:
            r.cpu_exceeded = True
    else:
        r.sig = None
        r.rc = rc
    if len(out) > max_out:
        out = out[:max_out]
        r.truncated = True
    r.out, r.err = out, err
    return r


def pmap(fn, items, workers=None):
    """process-parallel map (fork); fn must be a module-level function"""
    items = list(items)
    if not items:
        return []
    w = min(workers or NPROC, len(items))
    if w <= 1:
        return [fn(i) for i in items]
    with ProcessPoolExecutor(w) as ex:
        return list(ex.map(fn, items))


def tmap(fn, items, workers=None):
    items = list(items)
    if not items:
        return []
    with ThreadPoolExecutor(min(workers or NPROC, len(items))) as ex:
        return list(ex.map(fn, items))


# ---------------------------------------------------------------------------
class Known:
    def __init__(self, path=KNOWN):
        self.findings = []   # (prop, sigpattern, text)
        self.fixed = []
        if path.exists():
            for ln in path.read_text().splitlines():
                ln = ln.strip()
                if not ln or ln.startswith("#"):
                    continue
                if ln.startswith("finding:"):
                    m = re.match(r"finding:\s+property=(\S+)\s+sig=(\S+)\s*(.*)", ln)
                    if m:
                        self.findings.append((m.group(1), m.group(2), m.group(3)))
                elif ln.startswith("fixed:"):
                    self.fixed.append(ln)

    def match(self, prop, sig):
        for p, pat, text in self.findings:
            if p == prop and (pat == sig or fnmatch.fnmatchcase(sig, pat)):
                return pat, text
        return None


class Shard:
    """what a worker process returns: plain data, mergeable"""

    def __init__(self):
        self.evals = 0
        self.classes = Counter()     # nontrivial class -> count
        self.monitors = Counter()    # "monitor:verdict" -> count
        self.viol = OrderedDict()    # sig -> dict(desc, replay, count)
        self.samples = []
        self.skipped = Counter()
        self.extra = Counter()
        self.procs = 0

    def ok(self, monitor, cls=None, n=1):
        self.evals += n
        self.monitors[monitor + ":ok"] += n
        if cls is not None:
            self.classes[cls] += n

    def skip(self, why, n=1):
        self.skipped[why] += n

    def bad(self, monitor, sig, desc, replay=None, cls=None):
        self.evals += 1
        self.monitors[monitor + ":violation"] += 1
        if cls is not None:
            self.classes[cls] += 1
        v = self.viol.get(sig)
        if v is None:
            self.viol[sig] = dict(desc=desc, replay=replay or {}, count=1)
        else:
            v["count"] += 1

    def check_san(self, r, monitor, prefix, what=""):
        """record a sanitizer/probe report or a death signal of process result r;
        returns the kind (or None when the process was clean)"""
        kind = r.san_kind()
        if kind is None and r.sig is not None:
            kind = "cpu-limit" if r.cpu_exceeded else "wall-timeout" if r.timed_out else "signal%d" % r.sig
        if kind is None:
            return None
        if r.timed_out and not r.cpu_exceeded and r.san_kind() is None:
            # wall-clock watchdog only: inconclusive, never a verdict
            self.extra["inconclusive_wall_timeouts"] += 1
            return kind
        self.bad(monitor, "%s:%s" % (prefix, kind), "%s %s: %s" % (what, kind, shq(r.argv)[:300]),
                 res_replay(r))
        return kind

    def sample(self, s, cap=6):
        if len(self.samples) < cap:
            self.samples.append(s)

    def merge(self, o):
        self.evals += o.evals
        self.classes.update(o.classes)
        self.monitors.update(o.monitors)
        self.skipped.update(o.skipped)
        self.extra.update(o.extra)
        self.procs += o.procs
        for s, v in o.viol.items():
            if s in self.viol:
                self.viol[s]["count"] += v["count"]
            else:
                self.viol[s] = v
        for s in o.samples:
            if len(self.samples) < 12:
                self.samples.append(s)
        return self


def san_excerpt(err, n=2500):
    """the part of stderr that matters: from the first sanitizer/probe report on"""
    if not err:
        return ""
    pos = [p for p in (err.find(b"VERIF-INVARIANT"), err.find(b"ERROR: AddressSanitizer"), err.find(b"runtime error:")) if p >= 0]
    i = max(0, min(pos) - 120) if pos else max(0, len(err) - n)
    return err[i:i + n].decode("latin-1")


def res_replay(r, expected=None, note=None):
    """replay record for a process result"""
    d = dict(argv=[a if isinstance(a, str) else a.decode("latin-1") for a in r.argv],
             stdin_hex=(r.stdin or b"")[:65536].hex(),
             env={k: v for k, v in (r.env or {}).items()},
             rc=r.rc, sig=r.sig,
             stdout=r.out[:4000].decode("latin-1"),
             stderr=san_excerpt(r.err))
    if expected is not None:
        d["expected"] = expected
    if note:
        d["note"] = note
    return d


class Ctx(Shard):
    def __init__(self, prop, tier="quick", seed=1, level="exploration"):
        Shard.__init__(self)
        self.prop = prop
        self.tier = tier
        self.seed = seed
        self.level = level
        self.t0 = time.time()
        self.rng = random.Random(seed)
        self.rule = ""
        self.assumptions = []
        self.cov = {}
        self.exhaustive = None
        self.min_evals = 1
        self.harness_errors = []
        self._bins = {}

    def bin(self, variant="san"):
        if variant not in self._bins:
            self._bins[variant] = _build.build(variant)
        return self._bins[variant]

    def harness_error(self, msg):
        self.harness_errors.append(msg)

    def finish(self):
        known = Known()
        nviol = 0
        nknown = 0
        lines = []
        rdir = EVID / "replay" / self.prop
        matched = []
        unlisted = []
        kgroups = OrderedDict()
        if rdir.exists():
            for old in rdir.glob("*.json"):
                old.unlink()
        for sig, v in self.viol.items():
            m = known.match(self.prop, sig)
            if m:
                nknown += 1
                matched.append(sig)
                g = kgroups.setdefault(m[0], [m[1] or v["desc"], 0, 0])
                g[1] += 1
                g[2] += v["count"]
                continue
            nviol += 1
            unlisted.append(sig)
            rdir.mkdir(parents=True, exist_ok=True)
            rp = rdir / (hashlib.sha1(sig.encode()).hexdigest()[:12] + ".json")
            rec = dict(property=self.prop, signature=sig, description=v["desc"],
                       count=v["count"], seed=self.seed, tier=self.tier)
            rec.update(v["replay"])
            rp.write_text(json.dumps(rec, indent=1, default=str))
            if nviol <= 25:
                lines.append("VIOLATION property=%s replay=%s" % (self.prop, rp))
                lines.append("  sig=%s :: %s (x%d)" % (sig, v["desc"][:300], v["count"]))
        for pat, (text, nsig, nev) in kgroups.items():
            lines.append("KNOWN-FINDING: property=%s %s %s [%d signature(s), %d event(s) this run]" %
                         (self.prop, pat, text, nsig, nev))
        distinct = len(self.classes)
        cov = dict(evaluations=int(self.evals), distinct_nontrivial=int(distinct),
                   rule=self.rule, samples=self.samples[:12] or ["<none>"],
                   monitors=dict(self.monitors),
                   classes_top={(k if isinstance(k, str) else '/'.join(map(str, k))): v for k, v in self.classes.most_common(40)},
                   skipped_out_of_domain=dict(self.skipped),
                   processes=int(self.procs),
                   known_findings_matched=matched,
                   unlisted_violation_signatures=unlisted[:50])
        if self.exhaustive is not None:
            cov["exhaustive"] = bool(self.exhaustive)
        cov.update(self.cov)
        for k, v in self.extra.items():
            cov.setdefault("counters", {})[k] = v
        ev = dict(property_id=self.prop, tier=self.tier, seed=int(self.seed),
                  level=self.level, coverage=cov, assumptions=self.assumptions,
                  wall_s=round(time.time() - self.t0, 2), violations=nviol)
        EVID.mkdir(exist_ok=True)
        tmp = EVID / (self.prop + ".json.tmp")
        tmp.write_text(json.dumps(ev, indent=1, default=str))
        os.replace(tmp, EVID / (self.prop + ".json"))
        for ln in lines:
            print(ln)
        status = "held"
        rc = 0
        if self.harness_errors:
            for h in self.harness_errors:
                print("HARNESS-ERROR property=%s %s" % (self.prop, h))
            rc = 2
            status = "inconclusive"
        if self.evals < self.min_evals or distinct < 2:
            print("HARNESS-ERROR property=%s too few events observed (%d evals, %d classes; floor %d)"
                  % (self.prop, self.evals, distinct, self.min_evals))
            rc = 2
            status = "inconclusive"
        if nviol:
            rc = 1
            status = "violated"
        print("%s: %s on %d events / %d classes / %d processes; %d unlisted violation signature(s), "
              "%d known finding(s); %.1fs [tier=%s seed=%d]" %
              (self.prop, status, self.evals, distinct, self.procs, nviol, nknown,
               time.time() - self.t0, self.tier, self.seed))
        return rc


def shq(argv):
    return " ".join(shlex.quote(a if isinstance(a, str) else a.decode("latin-1")) for a in argv)


# ---------------------------------------------------------------------------
_DROP = re.compile(rb"cannot (?:make sense of|interpret|parse)[^`]*`(.*?)'")


def align_lines(inputs, r):
    """align stdout lines of a line-in/line-out tool run with its inputs.

    Lines the tool refuses are reported on stderr ("cannot make sense of
    `X'"), in input order.  Returns (outs, crash_idx): outs[i] is the output
    text for inputs[i], None if refused, and crash_idx is the index of the
    first input that got no answer because the process died (or None)."""
    outl = r.out.split(b"\n")
    if outl and outl[-1] == b"":
        outl.pop()
    drops = [m.group(1) for m in _DROP.finditer(r.err or b"")]
    outs = []
    oi = di = 0
    died = r.sig is not None or (r.rc is not None and r.rc > 2 and r.rc != 2)
    for i, inp in enumerate(inputs):
        ib = inp if isinstance(inp, bytes) else inp.encode()
        if di < len(drops) and drops[di] == ib:
            outs.append(None)
            di += 1
        elif oi < len(outl):
            outs.append(outl[oi].decode("latin-1"))
            oi += 1
        else:
            # ran out of answers
            return outs, i
    if oi != len(outl):
        # more output than input: misaligned
        return outs, -1
    return outs, None


# ---------------------------------------------------------------------------
def esc(b):
    """escape one driver field (bytes or str) -> str"""
    if b is None:
        return "-"
    if isinstance(b, str):
        b = b.encode("utf-8", "surrogateescape")
    if b == b"-":
        return "\\x2d"
    out = []
    for c in b:
        if c == 0x5c:
            out.append("\\\\")
        elif c == 9:
            out.append("\\t")
        elif c == 10:
            out.append("\\n")
        elif 0x20 <= c < 0x7f:
            out.append(chr(c))
        else:
            out.append("\\x%02x" % c)
    return "".join(out)


def req(*fields):
    return "\t".join(esc(f) for f in fields)


def drive(binpath, requests, sh=None, cpu=20, wall=120, env=None, argv_extra=(), max_restarts=50, preamble=()):
    """send REQUESTS (list of str lines) to a line-protocol driver.

    Returns (answers, deaths): answers[i] is the answer line (str) or None when
    the driver died while working on request i; deaths = list of (index, Res).
    The driver is restarted behind each fatal request so one defect does not
    mask the rest of the batch."""
    answers = [None] * len(requests)
    deaths = []
    pos = 0
    restarts = 0
    while pos < len(requests):
        chunk = requests[pos:]
        # the preamble (e.g. "O <zone file>") re-establishes the driver's state after a restart
        pre = list(preamble) if pos > 0 else []
        r = run([str(binpath)] + list(argv_extra), stdin=("\n".join(pre + chunk) + "\n").encode("latin-1"),
                cpu=cpu, wall=wall, env=env)
        if sh is not None:
            sh.procs += 1
        outl = r.out.decode("latin-1").split("\n")
        if outl and outl[-1] == "":
            outl.pop()
        outl = outl[len(pre):]
        n = min(len(outl), len(chunk))
        for k in range(n):
            answers[pos + k] = outl[k]
        if n == len(chunk) and r.sig is None:
            if r.san_kind() is not None:
                # non-fatal (recoverable) report somewhere in the batch
                deaths.append((-1, r))
            break
        # died / stalled at request pos+n
        deaths.append((pos + n, r))
        pos = pos + n + 1
        restarts += 1
        if restarts > max_restarts:
            break
    return answers, deaths
