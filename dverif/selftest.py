"""self-tests of the oracles (run by setup_cmd and `make selftest`); no repo code involved"""
import sys
from .oracle import cal, dur, hijri


def main():
    n = cal.selftest()
    dur.selftest()
    h = hijri.Hijri()
    assert h.text(156767 + 60) == "1433-04-08"      # 2012-03-01, pinned by hand from data/ummulqura.tab
    for extra in ("tzif", "leap", "loc"):
        try:
            mod = __import__("dverif.oracle." + extra, fromlist=["selftest"])
        except ImportError:
            continue
        if hasattr(mod, "selftest"):
            mod.selftest()
    print("oracle selftest ok (cal on %d days)" % n)
    return 0


if __name__ == "__main__":
    sys.exit(main())
