"""Umm-al-Qura calendar: data/ummulqura.tab is the definition inside its range."""
import re
from .. import build
from . import cal


def load(path=None):
    path = path or (build.REPO / "data" / "ummulqura.tab")
    txt = open(path).read()
    base = int(re.search(r"UMMULQURA_BASE\s+\((\d+)\)", txt).group(1))
    rows = {}
    for m in re.finditer(r"\[(\d+) - UMMULQURA_BASE\]\s*=\s*\{([^}]*)\}", txt):
        rows[int(m.group(1))] = [int(x.strip().rstrip("U")) for x in m.group(2).split(",") if x.strip()]
    years = sorted(rows)
    bom = []     # (ldn of month begin, hy, hm)
    for y in years:
        for mi, l in enumerate(rows[y]):
            bom.append((l, y, mi + 1))
    return base, bom


class Hijri:
    def __init__(self):
        self.base, self.bom = load()
        self.first = self.bom[0][0]
        # the length of the very last month is not in the table
        self.last = self.bom[-1][0] + 28

    def of_ldn(self, ldn):
        """-> (y, m, d) for first <= ldn <= last"""
        import bisect
        i = bisect.bisect_right(self.bom, (ldn, 99999, 99)) - 1
        l, y, m = self.bom[i]
        return y, m, ldn - l + 1

    def text(self, ldn):
        return "%04d-%02d-%02d" % self.of_ldn(ldn)

    def ordinals(self):
        return range(self.first + cal.ORD_LDN0, self.last + cal.ORD_LDN0 + 1)
