"""data/locale: name tables per locale; the file is the specification"""
import re
from .. import build


def load(path=None):
    path = path or (build.REPO / "data" / "locale")
    L = {}
    lines = open(path, encoding="utf-8").read().split("\n")
    i = 0
    while i < len(lines):
        ln = lines[i]
        if re.match(r"^[a-z]{2,3}_[A-Z]{2}(@\w+)?$", ln) and i + 4 < len(lines):
            rows = [lines[i + k].split("\t") for k in range(1, 5)]
            if len(rows[0]) == 7 and len(rows[1]) == 7 and len(rows[2]) == 12 and len(rows[3]) == 12:
                L[ln] = dict(a=rows[0], A=rows[1], b=rows[2], B=rows[3])
                i += 5
                continue
        i += 1
    return L


def prefix_free(names):
    """no name is a prefix of another (else a parser reading left to right cannot tell them apart)"""
    ns = [n for n in names]
    for i, x in enumerate(ns):
        if not x.strip():
            return False
        for j, y in enumerate(ns):
            if i != j and y.startswith(x):
                return False
    return True


def usable(loc, kinds=("a", "A", "b", "B")):
    return all(prefix_free(loc[k]) for k in kinds) and all("\t" not in n and n == n.strip() for k in kinds for n in loc[k])


def selftest():
    L = load()
    assert "de_DE" in L and L["de_DE"]["A"][1] == "Dienstag" and L["de_DE"]["B"][2] == "März", L.get("de_DE")
    assert len(L) > 200
    return len(L), sum(1 for v in L.values() if usable(v))


if __name__ == "__main__":
    print(selftest())
