"""duration algebra on the civil calendar: ordinal arithmetic only"""
from datetime import date

from . import cal
from .cal import mdays, is_leap


def ymd_to_ord(y, m, d):
    return date(y, m, d).toordinal()


def in_range(o):
    return cal.ORD_MIN <= o <= cal.ORD_MAX


# ---- business days -----------------------------------------------------------
def is_bday(o):
    return (o - 1) % 7 < 5          # ordinal 1 = Monday 0001-01-01


def bday_index(o):
    """1-based count of Mon-Fri days of o's month up to and including o (o must be a bday)"""
    d = date.fromordinal(o)
    o1 = o - d.day + 1
    return bdays_between(o1 - 1, o)


def bdays_between(a, b):
    """number of Mon-Fri days in (a, b]  (a <= b)"""
    def upto(o):   # number of bdays in [1, o]
        w, r = divmod(o, 7)
        return w * 5 + min(r, 5)
    return upto(b) - upto(a)


def bdays_in_month(y, m):
    o1 = ymd_to_ord(y, m, 1)
    return bdays_between(o1 - 1, o1 + mdays(y, m) - 1)


def nth_bday_in_month(y, m, n):
    """ordinal of the n-th Mon-Fri day of the month, None if there is none"""
    if n < 1 or n > bdays_in_month(y, m):
        return None
    o = ymd_to_ord(y, m, 1) - 1
    return nth_bday_after(o, n)


def nth_bday_after(o, n):
    """n-th Mon-Fri day strictly after o (n>0) / strictly before o (n<0)"""
    assert n != 0
    step = 1 if n > 0 else -1
    k = abs(n)
    # jump whole weeks first
    w = (k - 1) // 5
    o += step * 7 * w
    k -= 5 * w
    while k:
        o += step
        if is_bday(o):
            k -= 1
    return o


def bizda_text(o):
    d = date.fromordinal(o)
    return "%04d-%02d-%02db" % (d.year, d.month, bday_index(o))


# ---- months / years ----------------------------------------------------------
def add_months_ym(y, m, n):
    t = y * 12 + (m - 1) + n
    return t // 12, t % 12 + 1


def add_months_ymd(o, n):
    d = date.fromordinal(o)
    y, m = add_months_ym(d.year, d.month, n)
    if not 1601 <= y <= 4095:
        return None
    return ymd_to_ord(y, m, min(d.day, mdays(y, m)))


def wd_count_in_month(y, m, wd_iso):
    """how many times ISO weekday wd (1..7) occurs in the month"""
    o1 = ymd_to_ord(y, m, 1)
    first = (wd_iso - date.fromordinal(o1).isoweekday()) % 7 + 1
    return (mdays(y, m) - first) // 7 + 1


def ymcw_to_ord(y, m, c, wd_iso):
    o1 = ymd_to_ord(y, m, 1)
    first = (wd_iso - date.fromordinal(o1).isoweekday()) % 7 + 1
    return o1 + first - 1 + 7 * (c - 1)


def add_months_ymcw(o, n):
    """count and weekday kept, count clamped to the last existing one"""
    D = cal.Day(o)
    y, m = add_months_ym(D.y, D.m, n)
    if not 1601 <= y <= 4095:
        return None
    c = min(D.cnt_mon, wd_count_in_month(y, m, D.iwd))
    return ymcw_to_ord(y, m, c, D.iwd)


def iso_weeks_in_year(y):
    return date(y, 12, 28).isocalendar()[1]


def add_years_ywd(o, n):
    D = cal.Day(o)
    y = D.iy + n
    if not 1601 <= y <= 4095:
        return None
    w = min(D.iw, iso_weeks_in_year(y))
    return date.fromisocalendar(y, w, D.iwd).toordinal()


def add_years_yd(o, n):
    D = cal.Day(o)
    y = D.y + n
    if not 1601 <= y <= 4095:
        return None
    yd = min(D.yday, 366 if is_leap(y) else 365)
    return ymd_to_ord(y, 1, 1) + yd - 1


def add_months_bizda(o, n):
    """business-day index kept, clamped to the month's number of business days"""
    D = cal.Day(o)
    y, m = add_months_ym(D.y, D.m, n)
    if not 1601 <= y <= 4095:
        return None
    idx = min(bday_index(o), bdays_in_month(y, m))
    return nth_bday_in_month(y, m, idx)


def selftest():
    assert bizda_text(date(2012, 2, 3).toordinal()) == "2012-02-03b"
    assert nth_bday_after(date(2012, 2, 3).toordinal(), 1) == date(2012, 2, 6).toordinal()
    assert nth_bday_after(date(2012, 2, 4).toordinal(), -1) == date(2012, 2, 3).toordinal()
    assert nth_bday_after(date(2012, 2, 4).toordinal(), 6) == date(2012, 2, 13).toordinal()
    assert add_months_ymd(date(2012, 1, 31).toordinal(), 1) == date(2012, 2, 29).toordinal()
    assert add_months_ymcw(date(2012, 1, 31).toordinal(), 1) == date(2012, 2, 28).toordinal()
    assert add_years_ywd(date.fromisocalendar(2015, 53, 4).toordinal(), 1) == date.fromisocalendar(2016, 52, 4).toordinal()
    assert add_years_yd(date(2012, 12, 31).toordinal(), 1) == date(2013, 12, 31).toordinal()
    assert add_months_bizda(nth_bday_in_month(2012, 1, 22), 1) == nth_bday_in_month(2012, 2, 21)
    # brute-force cross-check of the closed forms
    import random
    r = random.Random(7)
    for _ in range(3000):
        a = r.randrange(cal.ORD_MIN, cal.ORD_MAX - 400)
        b = a + r.randrange(0, 400)
        assert bdays_between(a, b) == sum(1 for o in range(a + 1, b + 1) if is_bday(o))
        n = r.choice([-1, 1]) * r.randrange(1, 300)
        t = nth_bday_after(a, n)
        if n > 0:
            assert is_bday(t) and bdays_between(a, t) == n
        else:
            assert is_bday(t) and bdays_between(t - 1, a - 1) == -n
    return True


if __name__ == "__main__":
    print("dur selftest", selftest())
