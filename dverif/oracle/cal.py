"""Reference model of the proleptic Gregorian / ISO 8601 calendar.

Calendar facts come from CPython's datetime.date; textual conventions from
info/format.texi, corrected where the pinned test-suite contradicts the
documentation (see DESIGN.md section 2.3 / 7).
"""
from datetime import date

ORD_MIN = date(1601, 1, 1).toordinal()      # 584389
ORD_MAX = date(4095, 12, 31).toordinal()    # 1495668
NDAYS = ORD_MAX - ORD_MIN + 1               # 911280
ORD_UNIX = date(1970, 1, 1).toordinal()     # 719163
ORD_LDN0 = date(1582, 10, 15).toordinal()   # lilian day 0 (pinned by dconv.093/094)
MDN_OFF = 366                               # matlab datenum = ordinal + 366
JDN_OFF = 1721424.5                         # jdn = ordinal + 1721424.5

WD_ABBR = ["Mon", "Tue", "Wed", "Thu", "Fri", "Sat", "Sun"]
WD_LONG = ["Monday", "Tuesday", "Wednesday", "Thursday", "Friday", "Saturday", "Sunday"]
WD_ONE = "MTWRFAS"
MON_ABBR = ["Jan", "Feb", "Mar", "Apr", "May", "Jun", "Jul", "Aug", "Sep", "Oct", "Nov", "Dec"]
MON_LONG = ["January", "February", "March", "April", "May", "June", "July",
            "August", "September", "October", "November", "December"]
MON_ONE = "FGHJKMNQUVXZ"

# every date specifier judged by C01/C02
DATE_SPECS = ["%F", "%Y", "%y", "%_y", "%m", "%d", "%j", "%D", "%a", "%A", "%_a",
              "%b", "%B", "%_b", "%u", "%w", "%U", "%W", "%V", "%C", "%c", "%G",
              "%g", "%q", "%Q"]
CAL_NAMES = ["ymd", "ywd", "yd", "ymcw", "ldn", "jdn", "mdn"]


def is_leap(y):
    return y % 4 == 0 and (y % 100 != 0 or y % 400 == 0)


def mdays(y, m):
    if m == 2:
        return 29 if is_leap(y) else 28
    return 31 if m in (1, 3, 5, 7, 8, 10, 12) else 30


def roman(n):
    if n <= 0:
        return ""
    out = []
    for v, s in ((1000, "M"), (900, "CM"), (500, "D"), (400, "CD"), (100, "C"), (90, "XC"),
                 (50, "L"), (40, "XL"), (10, "X"), (9, "IX"), (5, "V"), (4, "IV"), (1, "I")):
        while n >= v:
            out.append(s)
            n -= v
    return "".join(out)


def ordinal_suffix(n):
    if 10 <= n % 100 <= 20:
        return "th"
    return {1: "st", 2: "nd", 3: "rd"}.get(n % 10, "th")


class Day:
    """all facts about one civil day"""
    __slots__ = ("o", "y", "m", "d", "wd", "yday", "iy", "iw", "iwd")

    def __init__(self, o):
        dt = date.fromordinal(o)
        self.o = o
        self.y, self.m, self.d = dt.year, dt.month, dt.day
        self.wd = dt.weekday()            # Mon=0 .. Sun=6
        self.yday = o - date(dt.year, 1, 1).toordinal() + 1
        self.iy, self.iw, self.iwd = dt.isocalendar()

    # --- numeric facts -------------------------------------------------
    @property
    def wd_sun0(self):
        return (self.wd + 1) % 7

    @property
    def wk_U(self):
        return (self.yday - 1 + 7 - self.wd_sun0) // 7

    @property
    def wk_W(self):
        return (self.yday - 1 + 7 - self.wd) // 7

    @property
    def cnt_year(self):
        return (self.yday - 1) // 7 + 1

    @property
    def cnt_mon(self):
        return (self.d - 1) // 7 + 1

    @property
    def quarter(self):
        return (self.m - 1) // 3 + 1

    @property
    def ldn(self):
        return self.o - ORD_LDN0

    @property
    def mdn(self):
        return self.o + MDN_OFF

    @property
    def unix(self):
        return (self.o - ORD_UNIX) * 86400

    # --- texts ---------------------------------------------------------
    def ymd(self):
        return "%04d-%02d-%02d" % (self.y, self.m, self.d)

    def ywd(self):
        return "%04d-W%02d-%d" % (self.iy, self.iw, self.iwd)

    def yd(self):
        return "%04d-%03d" % (self.y, self.yday)

    def ymcw(self, sunday="07"):
        w = self.iwd if self.iwd < 7 else int(sunday)
        return "%04d-%02d-%02d-%02d" % (self.y, self.m, self.cnt_mon, w)

    def jdn_text(self):
        return "%.6f" % (self.o + JDN_OFF)

    def spec(self, s):
        """expected text(s) for specifier s -> tuple of acceptable strings"""
        if s == "%F":
            return (self.ymd(),)
        if s == "%Y":
            return ("%04d" % self.y,)
        if s == "%y":
            return ("%02d" % (self.y % 100),)
        if s == "%_y":
            return ("%d" % (self.y % 10),)
        if s == "%m":
            return ("%02d" % self.m,)
        if s == "%d":
            return ("%02d" % self.d,)
        if s in ("%j", "%D"):
            return ("%03d" % self.yday,)
        if s == "%a":
            return (WD_ABBR[self.wd],)
        if s == "%A":
            return (WD_LONG[self.wd],)
        if s == "%_a":
            return (WD_ONE[self.wd],)
        if s == "%b":
            return (MON_ABBR[self.m - 1],)
        if s == "%B":
            return (MON_LONG[self.m - 1],)
        if s == "%_b":
            return (MON_ONE[self.m - 1],)
        if s == "%u":
            return ("%d" % self.iwd,)
        if s == "%w":
            # documentation says Sunday = 00, the pinned suite says 07
            return ("%02d" % self.iwd,) if self.iwd < 7 else ("07", "00")
        if s == "%U":
            return ("%02d" % self.wk_U,)
        if s == "%W":
            return ("%02d" % self.wk_W,)
        if s == "%V":
            return ("%02d" % self.iw,)
        if s == "%C":
            return ("%02d" % self.cnt_year,)
        if s == "%c":
            return ("%02d" % self.cnt_mon,)
        if s == "%G":
            return ("%04d" % self.iy,)
        if s == "%g":
            return ("%02d" % (self.iy % 100),)
        if s == "%q":
            return ("%02d" % self.quarter,)
        if s == "%Q":
            return ("Q%d" % self.quarter,)
        if s == "%s":
            return ("%d" % self.unix,)
        if s == "ymd":
            return (self.ymd(),)
        if s == "ywd":
            return (self.ywd(),)
        if s == "yd":
            return (self.yd(),)
        if s == "ymcw":
            return (self.ymcw("07"), self.ymcw("00")) if self.iwd == 7 else (self.ymcw(),)
        if s in ("ldn", "lilian"):
            return ("%d" % self.ldn,)
        if s in ("mdn", "matlab"):
            return ("%d" % self.mdn,)
        if s in ("jdn", "julian"):
            return (self.jdn_text(),)
        if s == "%db":
            # business day of the month; a Saturday or Sunday counts like the Friday before it (that is how weekend
            # days are written in the business-day calendar), 00 when the month begins with it
            from . import dur
            o = self.o - (self.wd - 4 if self.wd >= 5 else 0)
            if Day(o).m != self.m:
                return ("00b",)
            return ("%02db" % dur.bday_index(o),)
        if s == "%dth":
            return ("%d%s" % (self.d, ordinal_suffix(self.d)),)
        if s == "%mth":
            return ("%d%s" % (self.m, ordinal_suffix(self.m)),)
        if s == "%Od":
            return (roman(self.d),)
        if s == "%Om":
            return (roman(self.m),)
        if s == "%OY":
            return (roman(self.y),)
        raise KeyError(s)

    def cls(self):
        """boundary class of the day (for distinct_nontrivial)"""
        c = []
        if self.m == 2 and self.d == 29:
            c.append("feb29")
        if self.y % 100 == 0:
            c.append("cent-leap" if is_leap(self.y) else "cent-nonleap")
        if self.iy != self.y:
            c.append("isoyear!=year")
        if self.iw == 53:
            c.append("w53")
        if (self.m, self.d) in ((12, 31), (1, 1)):
            c.append("yearedge")
        if self.o > ORD_MAX - 606:
            c.append("last606")
        if self.d == mdays(self.y, self.m):
            c.append("ultimo")
        if self.iwd == 7:
            c.append("sun")
        return "+".join(c) if c else "plain"


def boundary_ordinals(step_years=1):
    """first/last 10 days of every year, 24 Feb - 5 Mar, first/last day of every month"""
    s = set()
    for y in range(1601, 4096, step_years):
        j1 = date(y, 1, 1).toordinal()
        d31 = date(y, 12, 31).toordinal()
        for k in range(10):
            s.add(j1 + k)
            s.add(d31 - k)
        f24 = date(y, 2, 24).toordinal()
        for k in range(11):
            s.add(f24 + k)
        for m in range(1, 13):
            s.add(date(y, m, 1).toordinal())
            s.add(date(y, m, mdays(y, m)).toordinal())
    s.update(range(ORD_MAX - 700, ORD_MAX + 1))
    s.update(range(ORD_MIN, ORD_MIN + 400))
    return sorted(o for o in s if ORD_MIN <= o <= ORD_MAX)


def selftest():
    """cross-check own formulas against strftime over a spread of days"""
    import time as _t
    n = 0
    for o in list(range(ORD_MIN, ORD_MAX + 1, 37)) + boundary_ordinals(7):
        d = Day(o)
        dt = date.fromordinal(o)
        st = dt.strftime("%U %W %j %G %V %u %w").split()
        assert "%02d" % d.wk_U == st[0], (o, d.wk_U, st)
        assert "%02d" % d.wk_W == st[1], (o, d.wk_W, st)
        assert "%03d" % d.yday == st[2]
        assert d.iy == int(st[3]) and d.iw == int(st[4]) and d.iwd == int(st[5])
        assert d.wd_sun0 == int(st[6])
        n += 1
    assert Day(date(2012, 1, 1).toordinal()).ldn == 156767
    assert Day(date(2000, 1, 1).toordinal()).jdn_text() == "2451544.500000"
    assert Day(ORD_UNIX).unix == 0
    return n


if __name__ == "__main__":
    print("cal selftest ok on", selftest(), "days")
