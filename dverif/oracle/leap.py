"""leap-second table: lib/leap-seconds.list (NTP seconds, TAI-UTC) is the specification"""
import bisect
import re

from .. import build

NTP_UNIX = 2208988800


def load(path=None):
    path = path or (build.REPO / "lib" / "leap-seconds.list")
    ent = []
    for ln in open(path):
        ln = ln.split("#")[0].strip()
        m = re.match(r"(\d+)\s+(\d+)", ln)
        if m:
            ent.append((int(m.group(1)) - NTP_UNIX, int(m.group(2))))
    ent.sort()
    return ent


class Leaps:
    def __init__(self):
        self.ent = load()
        self.ts = [t for t, _ in self.ent]
        self.base = self.ent[0][1]          # TAI-UTC at the first entry (10 s on 1972-01-01)
        # instants at which a leap second was inserted (the offset stepped by +1)
        self.steps = [t for (t, v), (_, pv) in zip(self.ent[1:], self.ent) if v == pv + 1]

    def tai_utc(self, t):
        """TAI-UTC in force at unix instant t: value of the last entry <= t, the first row's value before that"""
        i = bisect.bisect_right(self.ts, t) - 1
        return self.ent[i][1] if i >= 0 else self.base

    def gps_utc(self, t):
        return self.tai_utc(t) - 19 if t >= 315964800 else 0

    def nleaps(self, t):
        """number of inserted leap seconds at or before t"""
        return bisect.bisect_right(self.steps, t)

    def leaps_between(self, a, b):
        """inserted leap seconds in (a, b] for a <= b"""
        return self.nleaps(b) - self.nleaps(a)

    def add_si(self, t, n):
        """UTC label n SI seconds after regular UTC instant t -> (unix t', is_leap_label)
        is_leap_label: the result is the inserted second 23:59:60 that precedes t'+1"""
        c = t + self.nleaps(t) + n
        # largest u with u + nleaps(u) <= c
        lo = c - len(self.steps) - 1
        u = lo
        # walk (at most a few dozen steps)
        while (u + 1) + self.nleaps(u + 1) <= c:
            u += 1
        if u + self.nleaps(u) == c:
            return u, False
        return u, True


def selftest():
    L = Leaps()
    assert L.tai_utc(78796800) == 11 and L.tai_utc(78796799) == 10, (L.tai_utc(78796800), L.tai_utc(78796799))
    assert L.tai_utc(0) == 10 and L.tai_utc(1483228800) == 37 and L.tai_utc(4000000000) == 37
    b = 1341100800      # 2012-07-01T00:00:00
    assert L.add_si(b - 1, 1) == (b - 1, True) and L.add_si(b - 1, 2) == (b, False)
    assert L.add_si(b, -1) == (b - 1, True) and L.add_si(b, -2) == (b - 1, False)
    assert L.leaps_between(b - 1, b) == 1 and L.leaps_between(b, b + 10) == 0
    return True


if __name__ == "__main__":
    print(selftest(), len(Leaps().steps))
