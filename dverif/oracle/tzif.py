"""RFC 8536 TZif reader and writer; the file is the specification.

Reader: 64-bit block for version >= 2, 32-bit block for version 1, no POSIX
footer (the property says the last listed offset stays in force).  Adjacent
transitions to the SAME type index are merged, as the property allows.
"""
import bisect
import os
import struct

STAMP_MIN = -140737488355328
STAMP_MAX = 140737488355327


class TZifError(Exception):
    pass


def _hdr(b, off):
    if len(b) < off + 44 or b[off:off + 4] != b"TZif":
        raise TZifError("no magic at %d" % off)
    ver = b[off + 4:off + 5]
    isutc, isstd, leap, time, typ, char = struct.unpack(">6I", b[off + 20:off + 44])
    return ver, isutc, isstd, leap, time, typ, char


class TZif:
    def __init__(self, data, merge=True):
        self.raw = data
        ver, isutc, isstd, leap, time, typ, char = _hdr(data, 0)
        self.version = ver
        off = 44
        tsz = 4
        if ver in (b"2", b"3", b"4"):
            off += time * 4 + time + typ * 6 + char + leap * 8 + isstd + isutc
            ver2, isutc, isstd, leap, time, typ, char = _hdr(data, off)
            if ver2 != ver:
                # RFC 8536: both headers carry the same version; anything else is not a valid file
                raise TZifError("second header version differs")
            off += 44
            tsz = 8
        elif ver != b"\0":
            raise TZifError("unknown version %r" % ver)
        need = time * tsz + time + typ * 6
        if len(data) < off + need:
            raise TZifError("truncated data block")
        fmt = ">%d%s" % (time, "q" if tsz == 8 else "i")
        self.trs_raw = list(struct.unpack(fmt, data[off:off + time * tsz]))
        off += time * tsz
        self.tys_raw = list(data[off:off + time])
        off += time
        self.types = []
        for i in range(typ):
            utoff, isdst, abbr = struct.unpack(">iBB", data[off + 6 * i:off + 6 * i + 6])
            self.types.append((utoff, isdst, abbr))
        self.ntypes = typ
        # merge transitions to the same type
        self.trs, self.tys = [], []
        for t, y in zip(self.trs_raw, self.tys_raw):
            if merge and self.tys and self.tys[-1] == y:
                continue
            self.trs.append(t)
            self.tys.append(y)
        self.valid_types = all(y < typ for y in self.tys_raw)
        self.sorted = all(a < b for a, b in zip(self.trs_raw, self.trs_raw[1:]))

    @property
    def ntrans(self):
        return len(self.trs)

    def index(self, t):
        """index of the last transition <= t, -1 if before the first"""
        return bisect.bisect_right(self.trs, t) - 1

    def offset(self, t):
        """utoff in force at UTC instant t; None before the first transition
        (outside the property) or when the type index is invalid"""
        i = self.index(t)
        if i < 0:
            return None
        y = self.tys[i]
        if y >= self.ntypes:
            return None
        return self.types[y][0]

    def offsets_set(self):
        return set(u for u, _, _ in self.types)

    def utc_candidates(self, local):
        """all UTC instants u (>= first transition) with u + offset(u) == local"""
        out = []
        for off in self.offsets_set():
            u = local - off
            if self.offset(u) == off:
                out.append(u)
        return sorted(out)


def load(path):
    with open(path, "rb") as fp:
        return TZif(fp.read())


# ---- writer ------------------------------------------------------------------
def make(transitions, types, version=b"2", abbrevs=b"LMT\0STD\0DST\0", v1_block=True, footer=b"\n\n",
         leaps=(), isstd=None, isutc=None):
    """transitions: [(t, typeidx)] ascending; types: [(utoff, isdst, abbrind)] -> bytes"""
    def block(trs, tsz):
        n = len(trs)
        isstd_b = bytes(isstd if isstd is not None else [0] * len(types))
        isutc_b = bytes(isutc if isutc is not None else [0] * len(types))
        h = b"TZif" + version + b"\0" * 15 + struct.pack(">6I", len(isutc_b), len(isstd_b), len(leaps), n, len(types), len(abbrevs))
        body = struct.pack(">%d%s" % (n, "q" if tsz == 8 else "i"), *[t for t, _ in trs])
        body += bytes(y for _, y in trs)
        for u, d, a in types:
            body += struct.pack(">iBB", u, d, a)
        body += abbrevs
        for lt, lc in leaps:
            body += struct.pack(">qi" if tsz == 8 else ">ii", lt, lc)
        body += isstd_b + isutc_b
        return h + body
    if version == b"\0":
        return block([(t, y) for t, y in transitions if -2 ** 31 <= t < 2 ** 31], 4)
    v1 = [(t, y) for t, y in transitions if -2 ** 31 <= t < 2 ** 31] if v1_block else []
    return block(v1, 4) + block(list(transitions), 8) + footer


def all_zone_files(root="/usr/share/zoneinfo"):
    """distinct TZif images under root -> [(relative name, path)] (first name per image)"""
    seen = {}
    out = []
    for dp, dn, fn in os.walk(root):
        dn.sort()
        for f in sorted(fn):
            p = os.path.join(dp, f)
            try:
                with open(p, "rb") as fp:
                    head = fp.read(4)
                    if head != b"TZif":
                        continue
                    data = head + fp.read()
            except OSError:
                continue
            import hashlib
            h = hashlib.sha1(data).digest()
            if h in seen:
                continue
            seen[h] = p
            out.append((os.path.relpath(p, root), p))
    return out


def selftest():
    z = load("/usr/share/zoneinfo/Europe/Berlin")
    assert z.offset(0) == 3600 and z.offset(1000000000) == 7200, (z.offset(0), z.offset(1000000000))
    b = make([(-100, 1), (0, 2), (1000, 1)], [(50, 0, 0), (3600, 0, 4), (7200, 1, 8)])
    w = TZif(b)
    assert w.trs == [-100, 0, 1000] and w.offset(-1) == 3600 and w.offset(0) == 7200 and w.offset(5000) == 3600
    assert w.offset(-101) is None
    b1 = make([(-100, 1), (0, 2), (1000, 1)], [(50, 0, 0), (3600, 0, 4), (7200, 1, 8)], version=b"\0")
    assert TZif(b1).trs == [-100, 0, 1000]
    return True


if __name__ == "__main__":
    print(selftest(), len(all_zone_files()))
