"""seeded generators of (format, text) material for the parser/formatter monitors (C09, C10)"""
from .oracle import cal

DATE_SPECS = ["%F", "%Y", "%y", "%_y", "%m", "%d", "%j", "%D", "%a", "%A", "%_a", "%b", "%B", "%_b", "%h", "%u", "%w",
              "%U", "%W", "%V", "%C", "%c", "%G", "%g", "%q", "%Q", "%s", "%dth", "%mth", "%db", "%dB", "%Od", "%Om",
              "%OY", "%Oy", "%rY", "%rs", "%Z"]
TIME_SPECS = ["%H", "%I", "%M", "%S", "%N", "%p", "%P", "%T"]
GEN_SPECS = ["%n", "%t", "%%"]
MODS = ["_", "O", "0", " ", "-", "r"]
SEPS = ["", " ", "-", "/", ":", ".", ",", "T", " x ", "\t", "|", "%%", "%n", "ä", "€"]
SPECIAL_FMTS = ["ymd", "ywd", "yd", "ymcw", "bizda", "daisy", "sexy", "bizsi", "julian", "jdn", "lilian", "ldn", "matlab",
                "mdn", "hijri", "ummulqura", "now", "today", "time", "tomo", "yday"]


def rand_format(rng, nspec=None):
    n = nspec or rng.choice([1, 1, 2, 3, 3, 4, 6, 9])
    parts = []
    for i in range(n):
        s = rng.choice(DATE_SPECS + TIME_SPECS) if rng.random() < .9 else rng.choice(GEN_SPECS)
        if rng.random() < .15:
            s = "%" + rng.choice(MODS) + s[1:]
        parts.append(s)
        if i < n - 1:
            parts.append(rng.choice(SEPS))
    return "".join(parts)


def hostile_format(rng):
    """formats built to break tokenisers and buffers"""
    k = rng.randrange(16)
    base = rand_format(rng)
    if k == 0:
        return base + "%"
    if k == 1:
        return base + "%" + rng.choice(MODS)
    if k == 2:
        return base + "%" + "".join(rng.choice(MODS) for _ in range(rng.randrange(2, 9)))
    if k == 3:
        n = rng.choice([254, 255, 256, 257, 300, 1000])
        return (base + " ") * (n // (len(base) + 1) + 1)
    if k == 4:
        return "x" * rng.choice([255, 256, 257]) + base
    if k == 5:
        return base[: rng.randrange(len(base) + 1)]
    if k == 6:
        return bytes(rng.randrange(256) for _ in range(rng.randrange(1, 40)))
    if k == 7:
        return bytes([rng.randrange(128, 256)]) + base.encode()
    if k == 8:
        return rng.choice(SPECIAL_FMTS)
    if k == 9:
        return rng.choice(SPECIAL_FMTS)[:-1] + chr(rng.randrange(1, 256))
    if k == 10:
        return "%" * rng.randrange(1, 12)
    if k == 11:
        return base.replace("%", "%%%", 1)
    if k == 12:
        return "%A" * rng.choice([20, 40, 64]) + "%B" * rng.choice([20, 30])
    if k == 13:
        return base + "\x00" + base
    if k == 14:
        return "%" + rng.choice("EJKLRXefiklovxz1239")
    return base


def rand_value_text(rng):
    """a plausible date/time text in one of the calendars"""
    o = rng.randrange(cal.ORD_MIN, cal.ORD_MAX - 700)
    D = cal.Day(o)
    t = rng.choice([D.ymd, D.ywd, D.yd, D.ymcw])()
    k = rng.random()
    if k < .4:
        t += "T%02d:%02d:%02d" % (rng.randrange(25), rng.randrange(60), rng.randrange(61))
    elif k < .5:
        t = "%02d:%02d:%02d" % (rng.randrange(24), rng.randrange(60), rng.randrange(60))
    return t


def hostile_text(rng):
    k = rng.randrange(16)
    base = rand_value_text(rng)
    if k == 0:
        return base[: rng.randrange(len(base) + 1)]
    if k == 1:
        return base + rng.choice(["", " ", "x", "b", "th", "+01:00", "Z", "-", "T"])
    if k == 2:
        return "9" * rng.choice([5, 10, 19, 20, 40, 300])
    if k == 3:
        return rng.choice(["-", "+"]) + str(rng.choice([2 ** 31 - 1, 2 ** 31, 2 ** 32, 2 ** 63 - 1, 2 ** 63, 2 ** 64, 10 ** 30]))
    if k == 4:
        return bytes(rng.randrange(256) for _ in range(rng.randrange(0, 40)))
    if k == 5:
        i = rng.randrange(len(base))
        return base[:i] + chr(rng.randrange(1, 32)) + base[i:]
    if k == 6:
        return ""
    if k == 7:
        return base.replace("-", rng.choice(["--", "", "\xad", "/"]))
    if k == 8:
        return "@" + str(rng.choice([0, -1, 1, 2 ** 31, -2 ** 31 - 1, 2 ** 47, 2 ** 48, -2 ** 47 - 1, 10 ** 18]))
    if k == 9:
        return rng.choice(["now", "today", "tomorrow", "yesterday", "time", "date", "tomo", "yday", "nowx", "NOW"])
    if k == 10:
        return rng.choice(["January", "Mir", "Miracleday", "MMXII", "IIII", "MMMMMMMMM", "1st", "2nd", "0th", "32nd", "Q5", "Q0"])
    if k == 11:
        return base * rng.choice([2, 10, 40])
    if k == 12:
        return "%04d-%02d-%02d" % (rng.choice([0, 1, 1600, 1601, 4095, 4096, 9999, 99999]), rng.randrange(0, 15), rng.randrange(0, 34))
    if k == 13:
        return "%04d-W%02d-%d" % (rng.randrange(1500, 4200), rng.randrange(0, 56), rng.randrange(0, 9))
    if k == 14:
        return "%d" % rng.randrange(-10 ** 7, 10 ** 7)
    return base


def rand_duration(rng, hostile=True):
    k = rng.randrange(13) if hostile else 0
    if k == 12:
        # many components in one string: the duration list grows in steps of 16
        m = rng.choice([15, 16, 17, 18, 31, 32, 33, 40, 70, 200])
        return "".join("%d%s" % (rng.choice([1, 2, -1, 30]), rng.choice(["d", "w", "mo", "y", "h", "m", "s", "b"])) for _ in range(m))
    n = rng.choice([0, 1, -1, 7, 30, 365, 2 ** 31 - 1, 2 ** 31, -2 ** 31, 10 ** 12, rng.randrange(-10 ** 6, 10 ** 6)])
    u = rng.choice(["d", "w", "mo", "m", "y", "q", "b", "h", "s", "rs", "rm", "rh", "ns", "n", "D", "M", "'", '"', ""])
    if k < 6:
        return "%+d%s" % (n, u)
    if k == 6:
        return "%d%s%d%s" % (n, u, rng.randrange(100), rng.choice("dhms"))
    if k == 7:
        return rng.choice(["/", "//", "+", "-", "=", ">", "<", "p", "P"]) + "%d%s" % (n, u)
    if k == 8:
        return bytes(rng.randrange(256) for _ in range(rng.randrange(0, 16)))
    if k == 9:
        return "%d" % n + u * rng.choice([2, 5, 50])
    if k == 10:
        return rng.choice(["Mon", "Sun", "Jan", "Dec", "Miracleday", "1st", "31", "-31", "00", "/15m", "/1h", "/-3d", "W53", "5b", "32b"])
    return "r" * rng.randrange(1, 6) + "%d%s" % (n, u)
