"""Build instrumented variants of dateutils straight from /repo's working tree.

No autotools: own compile rules, a shadow tree of symlinks so that the
generated sources (bison/flex/gperf/yuck outputs) are regenerated from the
tracked inputs and picked up by the #include "x.c" idiom the code base uses.
Cache key = hash over every input file + flags; any edit under /repo rebuilds.
"""
import fcntl
import hashlib
import os
import shutil
import subprocess
import sys
import time
from concurrent.futures import ThreadPoolExecutor
from pathlib import Path

VERIF = Path(__file__).resolve().parent.parent
REPO = Path(os.environ.get("VERIF_REPO", "/repo"))
BUILD_ROOT = Path(os.environ.get("VERIF_BUILD_ROOT", str(VERIF / ".build")))
GUARD = "DATEUTILS_VERIF"

LIB_TUS = ["version", "date-core", "time-core", "dt-core", "strops", "token",
           "tzraw", "tzmap", "leaps", "dt-locale", "dt-core-tz-glue"]
IO_TUS = ["dt-io", "dt-io-zone", "alist", "prchunk"]
TOOLS = ["dconv", "dadd", "ddiff", "dgrep", "dround", "dseq", "dsort",
         "dtest", "dzone", "strptime"]
DRIVERS = ["dutdrv", "zifdrv", "tzmdrv"]

GENERATED = {
    "src": {"dexpr-parser.c", "dexpr-parser.h", "dexpr-scanner.c",
            "strpdt-special.c"},
    "lib": {"fmt-special.c"},
}
SRC_EXT = (".c", ".h", ".y", ".l", ".gperf", ".yuck", ".def", ".list",
           ".tzminfo", ".in")

CPP_COMMON = ["-DHAVE_CONFIG_H", "-D_POSIX_C_SOURCE=200112L",
              "-D_XOPEN_SOURCE=600", "-D_BSD_SOURCE", "-D_DEFAULT_SOURCE",
              "-std=gnu99", "-w"]

VARIANTS = {
    "san": dict(cc="gcc", shim=True, guard=True,
                cflags=["-O1", "-g", "-fno-omit-frame-pointer",
                        # gcc's scalar replacement of aggregates splits the packed
                        # 16-byte dt_dt_s and then reads the 48-bit bit-field with an
                        # 8-byte load that straddles two of the pieces: ASan reports a
                        # stack "unknown-crash" in dround_ddur on correct code
                        "-fno-tree-sra",
                        "-fsanitize=address,bounds,null,unreachable",
                        # bounds reports are collected from stderr and filtered
                        # against BENIGN_UB in core.py (row-overrun inside one
                        # 2D table object is not a buffer overrun)
                        "-fno-sanitize-recover=null,unreachable",
                        "-fsanitize-recover=bounds"],
                ldflags=["-fsanitize=address,bounds,null,unreachable"]),
    # hostile initial contents of autos: C13/C20 thorough tier
    "pat": dict(cc="gcc", shim=True, guard=True,
                cflags=["-O1", "-g", "-fno-omit-frame-pointer", "-fno-tree-sra",
                        "-fsanitize=address,bounds,null,unreachable",
                        "-fno-sanitize-recover=null,unreachable",
                        "-fsanitize-recover=bounds",
                        "-ftrivial-auto-var-init=pattern"],
                ldflags=["-fsanitize=address,bounds,null,unreachable"]),
    # coverage evidence only
    "cov": dict(cc="gcc", shim=True, guard=True,
                cflags=["-O0", "-g", "--coverage"], ldflags=["--coverage"]),
    # uninstrumented, hooks OFF, no shims: triage ("does the real binary do it?")
    "plain": dict(cc="gcc", shim=False, guard=False,
                  cflags=["-O2", "-g"], ldflags=[]),
    # informational UB classes (non-fatal)
    "ubsan": dict(cc="gcc", shim=True, guard=True,
                  cflags=["-O1", "-g", "-fsanitize=undefined",
                          "-fno-sanitize=alignment"],
                  ldflags=["-fsanitize=undefined"]),
}


def _inputs():
    files = []
    for sub in ("src", "lib"):
        d = REPO / sub
        for p in sorted(d.iterdir()):
            if p.is_file() and p.suffix in SRC_EXT and p.name not in GENERATED[sub]:
                files.append(p)
    files.append(REPO / "data" / "locale")
    files.append(REPO / "data" / "ummulqura.tab")
    for sub in ("shim", "drivers"):
        for p in sorted((VERIF / sub).iterdir()):
            if p.is_file():
                files.append(p)
    files.append(Path(__file__))
    return files


def tree_hash(variant):
    h = hashlib.sha1()
    h.update(repr(VARIANTS[variant]).encode())
    for p in _inputs():
        h.update(str(p).encode())
        try:
            h.update(p.read_bytes())
        except OSError:
            h.update(b"<missing>")
    return h.hexdigest()[:16]


class BuildError(Exception):
    pass


def _run(cmd, cwd=None, env=None):
    r = subprocess.run(cmd, cwd=cwd, env=env, stdout=subprocess.PIPE,
                       stderr=subprocess.STDOUT, text=True)
    if r.returncode != 0:
        raise BuildError("command failed: %s\n%s" % (" ".join(map(str, cmd)), r.stdout[-4000:]))
    return r.stdout


def _shadow(B):
    """symlink tree + regenerated sources"""
    for sub in ("src", "lib"):
        d = B / sub
        d.mkdir(parents=True)
        for p in (REPO / sub).iterdir():
            if not p.is_file():
                continue
            if p.name in GENERATED[sub] or p.suffix == ".yucc":
                continue
            if p.suffix in SRC_EXT:
                os.symlink(p, d / p.name)
    os.symlink(REPO / "data", B / "data")
    # config.h / version.c are configure outputs: take the in-tree ones
    for sub, name in (("src", "config.h"), ("lib", "version.c")):
        if not (B / sub / name).exists():
            shutil.copy(REPO / sub / name, B / sub / name)
    jobs = []
    jobs.append((["bison", "-y", "-d", "-Wnone", "-o", str(B / "src/dexpr-parser.c"),
                  str(REPO / "src/dexpr-parser.y")], None))
    jobs.append((["flex", "-o", str(B / "src/dexpr-scanner.c"),
                  str(REPO / "src/dexpr-scanner.l")], None))
    jobs.append((["gperf", "-L", "ANSI-C", str(REPO / "src/strpdt-special.gperf"),
                  "--output-file", str(B / "src/strpdt-special.c")], None))
    jobs.append((["gperf", "-L", "ANSI-C", str(REPO / "lib/fmt-special.gperf"),
                  "--output-file", str(B / "lib/fmt-special.c")], None))
    yuck = REPO / "build-aux" / "yuck"
    env = dict(os.environ)
    env["PATH"] = str(REPO / "build-aux") + ":" + env.get("PATH", "")
    for sub in ("src", "lib"):
        for p in sorted((REPO / sub).glob("*.yuck")):
            out = B / sub / (p.stem + ".yucc")
            if yuck.exists():
                jobs.append(([str(yuck), "gen", "-o", str(out), str(p)], env))
            else:
                pre = REPO / sub / (p.stem + ".yucc")
                if not pre.exists():
                    raise BuildError("no yuck and no pre-generated %s" % pre)
                shutil.copy(pre, out)

    def go(j):
        _run(j[0], env=j[1])
    with ThreadPoolExecutor(16) as ex:
        list(ex.map(go, jobs))


def _compile_all(B, variant):
    v = VARIANTS[variant]
    cc = v["cc"]
    base = [cc] + v["cflags"] + CPP_COMMON
    if v["guard"]:
        base += ["-D" + GUARD]
    if v["shim"]:
        base += ["-include", str(VERIF / "shim/verif_shim.h")]
    inc = ["-I" + str(B / "src"), "-I" + str(B / "lib")]
    libflags = ["-DDECLF=extern", "-DLIBDUT",
                '-DLOCALE_FILE="%s"' % (REPO / "data/locale")]
    ioflags = ["-DHAVE_VERSION_H", '-DTZMAP_DIR="/nonexistent/tzmaps"']
    obj = B / "obj"
    obj.mkdir()
    binn = B / "bin"
    binn.mkdir()
    jobs = []
    for tu in LIB_TUS:
        jobs.append(base + inc + libflags + ["-c", str(B / "lib" / (tu + ".c")),
                                             "-o", str(obj / ("lib-" + tu + ".o"))])
    for tu in IO_TUS:
        jobs.append(base + inc + ioflags + ["-c", str(B / "src" / (tu + ".c")),
                                            "-o", str(obj / ("io-" + tu + ".o"))])
    for t in TOOLS:
        jobs.append(base + inc + ioflags + ["-c", str(B / "src" / (t + ".c")),
                                            "-o", str(obj / ("tool-" + t + ".o"))])
    # drivers: compiled with the same flags; they include repo headers
    for d in DRIVERS:
        src = VERIF / "drivers" / (d + ".c")
        if src.exists():
            jobs.append(base + inc + libflags + ioflags +
                        ["-I" + str(VERIF / "shim"), "-c", str(src),
                         "-o", str(obj / ("drv-" + d + ".o"))])
    # runtime (never force-includes the shim header)
    rt = [cc] + v["cflags"] + ["-w", "-c", str(VERIF / "shim/verif_rt.c"),
                               "-o", str(obj / "verif_rt.o")]
    jobs.append(rt)
    # standalone tzmap tool
    tzm = [cc] + v["cflags"] + ["-DHAVE_CONFIG_H", "-D_POSIX_C_SOURCE=200809L",
                                "-D_XOPEN_SOURCE=700", "-D_BSD_SOURCE",
                                "-D_DEFAULT_SOURCE", "-DSTANDALONE", "-std=gnu99", "-w"]
    if v["guard"]:
        tzm += ["-D" + GUARD]
    if v["shim"]:
        tzm += ["-include", str(VERIF / "shim/verif_shim.h")]
    tzm += inc + ["-c", str(B / "lib/tzmap.c"), "-o", str(obj / "tool-tzmap.o")]
    jobs.append(tzm)

    with ThreadPoolExecutor(16) as ex:
        list(ex.map(_run, jobs))

    libobjs = [str(obj / ("lib-" + tu + ".o")) for tu in LIB_TUS]
    ioobjs = [str(obj / ("io-" + tu + ".o")) for tu in IO_TUS]
    rto = [str(obj / "verif_rt.o")]
    links = []
    for t in TOOLS:
        links.append([cc] + v["ldflags"] + [str(obj / ("tool-" + t + ".o"))] +
                     ioobjs + libobjs + rto + ["-o", str(binn / t)])
    links.append([cc] + v["ldflags"] + [str(obj / "tool-tzmap.o")] + rto +
                 ["-o", str(binn / "tzmap")])
    for d in DRIVERS:
        o = obj / ("drv-" + d + ".o")
        if o.exists():
            links.append([cc] + v["ldflags"] + [str(o)] + ioobjs + libobjs + rto +
                         ["-o", str(binn / d)])
    with ThreadPoolExecutor(16) as ex:
        list(ex.map(_run, links))


def build(variant="san", quiet=True):
    """returns the bin directory of an up-to-date build of VARIANT"""
    h = tree_hash(variant)
    BUILD_ROOT.mkdir(parents=True, exist_ok=True)
    B = BUILD_ROOT / ("%s-%s" % (variant, h))
    if (B / "OK").exists():
        return B / "bin"
    lock = open(BUILD_ROOT / (variant + ".lock"), "w")
    fcntl.flock(lock, fcntl.LOCK_EX)
    try:
        if (B / "OK").exists():
            try:
                os.utime(B)         # in use: keeps it clear of the clean-up below, whoever runs that
            except OSError:
                pass
            return B / "bin"
        t0 = time.time()
        if B.exists():
            shutil.rmtree(B)
        # drop stale builds of this variant, but not ones another run (another tree: a seeded change in a scratch
        # worktree, a check started before an edit) may still be executing: only what is older than 8 hours, or
        # beyond the 40 most recent ones (a build is touched every time a run picks it up)
        olds = sorted((o for o in BUILD_ROOT.glob(variant + "-*") if o != B and o.is_dir()),
                      key=lambda o: o.stat().st_mtime, reverse=True)
        for i, old in enumerate(olds):
            if i >= 40 or time.time() - old.stat().st_mtime > 8 * 3600:
                shutil.rmtree(old, ignore_errors=True)
        B.mkdir(parents=True)
        try:
            _shadow(B)
            _compile_all(B, variant)
        except BuildError:
            shutil.rmtree(B, ignore_errors=True)
            raise
        (B / "OK").write_text("built in %.1fs\n" % (time.time() - t0))
        if not quiet:
            print("built %s in %.1fs" % (B, time.time() - t0), file=sys.stderr)
        return B / "bin"
    finally:
        fcntl.flock(lock, fcntl.LOCK_UN)
        lock.close()


if __name__ == "__main__":
    vs = sys.argv[1:] or ["san"]
    for v in vs:
        try:
            print(build(v, quiet=False))
        except BuildError as e:
            print("BUILD FAILED:", e, file=sys.stderr)
            sys.exit(2)
