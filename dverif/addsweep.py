"""shared machinery: push oracle-made dates through `dadd DUR...` and compare
the printed result with the oracle's target day rendered in the same calendar"""
from . import core
from .core import Shard, run, align_lines, res_replay
from .oracle import cal, dur

KARGS = {"ymd": [], "ywd": [], "yd": [], "ymcw": [], "bizda": [],
         "ldn": ["-i", "ldn", "-f", "ldn"], "mdn": ["-i", "mdn", "-f", "mdn"], "jdn": ["-i", "jdn", "-f", "jdn"],
         # seconds since 1970 (midnights): held as one number, added to by its own routine
         "epoch": ["-i", "%s", "-f", "%s"]}


def ktext(K, o):
    """acceptable texts of ordinal o in calendar K (tuple); first one is used as input"""
    if K == "ldn":
        return ("%d" % (o - cal.ORD_LDN0),)
    if K == "mdn":
        return ("%d" % (o + cal.MDN_OFF),)
    if K == "jdn":
        # read with one decimal, printed with six
        return ("%.1f" % (o + cal.JDN_OFF), "%.6f" % (o + cal.JDN_OFF))
    if K == "epoch":
        return ("%d" % ((o - cal.ORD_UNIX) * 86400),)
    if K == "bizda":
        return (dur.bizda_text(o),)
    D = cal.Day(o)
    if K == "ymd":
        return (D.ymd(),)
    if K == "ywd":
        return (D.ywd(),)
    if K == "yd":
        return (D.yd(),)
    if K == "ymcw":
        return (D.ymcw("07"), D.ymcw("00")) if D.iwd == 7 else (D.ymcw(),)
    raise KeyError(K)


def carry_class(o, t):
    a, b = cal.Day(o), cal.Day(t)
    if (a.y, a.m) == (b.y, b.m):
        c = "same-month"
    elif a.y == b.y:
        c = "month-carry"
    elif abs(a.y - b.y) == 1:
        c = "year-carry"
    else:
        c = "multi-year"
    if a.y // 100 != b.y // 100:
        c += "+century"
    if a.iy != b.iy and (a.iw == 53 or b.iw == 53):
        c += "+w53"
    if t > cal.ORD_MAX - 606 or o > cal.ORD_MAX - 606:
        c += "+last606"
    return c


def err_shape(got, exps, o=None, t=None, K=None):
    if got is None:
        return "refused"
    if got.strip("0-Wb") == "":
        return "zero"
    if o is not None and got in ktext(K, o):
        return "noop"
    return "wrong"


def add_task(task):
    """task = (bindir, prop, K, durs, pairs, tag) with pairs = [(src ordinal, expected ordinal)]"""
    bindir, prop, K, durs, pairs, tag = task[:6]
    # optional 7th element: calendar the result is to be PRINTED in (-f NAME);
    # exposes internal state (lazy clamps, ywd "hang") the native output hides
    OK_ = task[6] if len(task) > 6 else None
    sh = Shard()
    if not pairs:
        return sh
    lines = [ktext(K, o)[0] for o, _ in pairs]
    kargs = KARGS[K]
    if OK_ is not None:
        kargs = [a for a in kargs if a not in ("-f",)][:2] if K in ("ldn", "mdn", "jdn") else list(kargs)
        kargs = kargs + ["-f", OK_]
        tag = tag + ">" + OK_
    durs = list(durs)
    if K == "epoch" and durs and not durs[0].startswith("+"):
        # with -i %s a first argument like -7d would be read as the reference value -7 (trailing text is
        # not looked at, pinned by dtseq.03/05), so lead with a duration that cannot be a stamp
        durs = ["+0s"] + durs
    argv = [str(bindir / "dadd")] + kargs + ["--"] + durs
    KO = OK_ or K
    pos = 0
    guard = 0
    while pos < len(lines) and guard < 6:
        guard += 1
        chunk = lines[pos:]
        r = run(argv, stdin=("\n".join(chunk) + "\n").encode(), cpu=120, wall=600)
        sh.procs += 1
        outs, crash = align_lines(chunk, r)
        if r.sig is None:
            sh.check_san(r, "san", "add:%s:%s:san" % (K, tag))
        for k, got in enumerate(outs):
            o, t = pairs[pos + k]
            exps = ktext(KO, t)
            cc = carry_class(o, t)
            sign = "-" if t < o else "+"
            if got in exps:
                sh.ok("add", (K, tag, sign, cc, cal.Day(o).wd))
            else:
                sig = "add:%s:%s:%s:err=%s:%s" % (K, tag, sign, err_shape(got, exps, o, t, K), cc)
                sh.bad("add", sig, "dadd %s %s -> %r, oracle: %s (%s)" %
                       (lines[pos + k], " ".join(durs), got, exps[0], cal.Day(t).ymd()),
                       dict(argv=argv, input=lines[pos + k], expected=list(exps), observed=got),
                       cls=(K, tag, sign, cc))
        if pos == 0 and outs and outs[0] is not None:
            sh.sample(dict(cmd=core.shq(argv), input=lines[0], output=outs[0]), cap=1)
        if crash is None:
            break
        if crash == -1:
            sh.bad("add", "add:%s:%s:misaligned" % (K, tag), "more output than input", res_replay(r))
            break
        w = pos + crash
        kind = r.san_kind() or ("cpu" if r.cpu_exceeded else "timeout" if r.timed_out else
                                "signal%s" % r.sig if r.sig else "rc%s" % r.rc)
        r.stdin = (lines[w] + "\n").encode()
        sh.bad("add", "add:%s:%s:died:%s" % (K, tag, kind), "dadd died (%s) at %r %s" % (kind, lines[w], durs),
               res_replay(r))
        pos = w + 1
    return sh
