"""C12 - time-zone conversion follows the zone file for every zone and instant"""
import os
import sys
import tempfile

from .. import core
from ..core import Shard, run, drive, res_replay
from ..oracle import tzif, cal

FAR = 1 << 40


def boundary_instants(z, rng, extra=6):
    """(t, kind) for every merged transition -1/0/+1, midpoints, both ends"""
    out = []
    n = z.ntrans
    for i, t in enumerate(z.trs):
        last = i == n - 1
        out.append((t - 1, "just-before" if i else "before-first"))
        out.append((t, "at-last" if last else "at"))
        out.append((t + 1, "after-last" if last else "just-after"))
        if not last:
            nx = z.trs[i + 1]
            if nx - t > 4:
                out.append(((t + nx) // 2, "interior"))
    if n:
        out.append((z.trs[-1] + 86400 * 400, "after-last"))
        out.append((z.trs[-1] + FAR, "after-last"))
        out.append((z.trs[0] - 86400, "before-first"))
        for _ in range(extra):
            out.append((rng.randrange(z.trs[0], z.trs[-1] + 86400 * 365 * 5), "interior"))
    else:
        out += [(0, "no-transitions"), (-FAR, "no-transitions"), (FAR, "no-transitions")]
    return out


def judge_zone(sh, name, path, z, answers, qs, mode, image_cls):
    """qs: list of (cmd, t, kind); answers aligned"""
    for (cmd, t, kind), a in zip(qs, answers):
        if a is None:
            continue
        cls = (image_cls, cmd, kind, mode, "idx>=256" if z.index(t) >= 256 else "idx<256")
        off = z.offset(t) if cmd in "LR" else None
        sigbase = "zone:%s:%s:%s:%s" % (cmd, kind, mode, "hi" if z.index(t) >= 256 else "lo")
        if cmd == "L":
            if off is None:
                sh.skip("before-first-transition")
                continue
            try:
                got = int(a)
            except ValueError:
                got = None
            if got == t + off:
                sh.ok("zone-offset", cls)
            else:
                sh.bad("zone-offset", sigbase + (":t<0" if t < 0 else ":t>=0"),
                       "%s: zif_local_time(%d) = %s, file says offset %+d -> %d (transition index %d of %d)" %
                       (name, t, a, off, t + off, z.index(t), z.ntrans),
                       dict(zone=name, file=path, query="L %d" % t, mode=mode, expected=t + off, observed=a), cls=cls)
        elif cmd == "R":
            if off is None:
                sh.skip("before-first-transition")
                continue
            i = z.index(t)
            prev = z.trs[i]
            nxt = z.trs[i + 1] if i + 1 < z.ntrans else tzif.STAMP_MAX
            parts = a.split()
            want = [str(prev), str(nxt), str(off)]
            if parts[:3] == want:
                sh.ok("zone-range", cls)
            else:
                sh.bad("zone-range", sigbase, "%s: zif_find_zrng(%d) = %s, adjacent table entries are %s" %
                       (name, t, a, " ".join(want)),
                       dict(zone=name, file=path, query="R %d" % t, mode=mode, expected=want, observed=a), cls=cls)
        elif cmd == "U":
            # t is a LOCAL time here
            cands = z.utc_candidates(t)
            try:
                got = int(a)
            except ValueError:
                got = None
            if not cands:
                # gap (or before the table): any table offset is acceptable
                if got is not None and any(got == t - o for o in z.offsets_set()):
                    sh.ok("zone-to-utc", cls + ("gap",))
                else:
                    sh.skip("local-time-in-gap-or-before-table")
                continue
            if got in cands:
                sh.ok("zone-to-utc", cls + ("ambiguous" if len(cands) > 1 else "unique",))
            else:
                sh.bad("zone-to-utc", sigbase + (":ambiguous" if len(cands) > 1 else ":unique") + ":" + image_cls,
                       "%s: zif_utc_time(%d) = %s, valid instants per file: %s" % (name, t, a, cands),
                       dict(zone=name, file=path, query="U %d" % t, mode=mode, expected=cands, observed=a), cls=cls)


def zone_task(task):
    bindir, name, path, seed, image_cls = task
    import random
    rng = random.Random(seed)
    sh = Shard()
    try:
        z = tzif.load(path)
    except Exception as e:
        sh.skip("oracle-cannot-read-file")
        return sh
    if not z.valid_types or not z.sorted:
        sh.skip("file-not-valid-tzif")
        return sh
    inst = boundary_instants(z, rng)
    # the risky class (exactly at the last transition) goes last so that a hang costs one restart
    inst.sort(key=lambda x: (x[1] == "at-last", x[0]))
    drv = bindir / "zifdrv"
    for mode in ("fresh", "sweep", "descend"):
        qs = []
        reqs = []
        seq = inst if mode != "descend" else sorted(inst, key=lambda x: (x[1] == "at-last", -x[0]))
        if mode != "fresh":
            reqs.append("O " + path)
            qs.append(None)
        for t, kind in seq:
            for cmd in ("L", "R", "U"):
                if mode == "fresh":
                    reqs.append("O " + path)
                    qs.append(None)
                if cmd == "U":
                    off = z.offset(t)
                    if off is None:
                        continue
                    reqs.append("U %d" % (t + off))
                    qs.append(("U", t + off, kind))
                else:
                    reqs.append("%s %d" % (cmd, t))
                    qs.append((cmd, t, kind))
        answers, deaths = drive(drv, reqs, sh, cpu=3, wall=60, env={"VERIF_PROBE_LOG": None},
                                preamble=["O " + path] if mode != "fresh" else [])
        for ix, r in deaths:
            q = qs[ix] if 0 <= ix < len(qs) else None
            kind = r.san_kind() or ("cpu-limit" if r.cpu_exceeded else "signal%s" % r.sig if r.sig else "rc%s" % r.rc)
            if r.timed_out and not r.cpu_exceeded:
                sh.extra["inconclusive_wall_timeouts"] += 1
                continue
            sh.bad("zone-total", "zone:died:%s:%s:%s" % (kind, q[0] if q else "?", q[2] if q else "?"),
                   "%s: zifdrv %s on request %r (%s mode)" % (name, kind, reqs[ix] if ix >= 0 else "?", mode),
                   dict(zone=name, file=path, driver_requests=reqs[max(0, ix - 3):ix + 1], mode=mode,
                        stderr=r.err[-1500:].decode("latin-1")),
                   cls=(image_cls, "died", q[2] if q else "?"))
        pairs = [(q, a) for q, a in zip(qs, answers) if q is not None]
        judge_zone(sh, name, path, z, [a for _, a in pairs], [q for q, _ in pairs], mode, image_cls)
    sh.sample(dict(zone=name, transitions=z.ntrans, types=z.ntypes, version=z.version.decode("latin-1")), cap=1)
    return sh


def synth_files(rng, n, tmpd):
    """write synthetic TZif files, return [(name, path, class)]; class 'realistic': transitions at least
    two days apart and offset steps of at most 3 h (any odd value); 'hostile': anything goes"""
    out = []
    for k in range(n):
        realistic = k % 2 == 0
        ver = rng.choice([b"\0", b"2", b"2", b"3"])
        ntr = rng.choice([0, 1, 2, 3, 5, 17, 255, 256, 257, 300, 600])
        nty = rng.choice([1, 2, 3, 7, 20])
        types = []
        base_off = rng.choice([0, 3600, -3600, 19800, 20700, -12600, 34200, -57360 + 10800, 54822 - 10800, 50, -1,
                               rng.randrange(-46000, 46000)])
        for i in range(nty):
            if realistic:
                types.append((base_off + rng.choice([0, 3600, 1800, 7200, -3600, 1200, 10800, rng.randrange(-5400, 5401)]),
                              rng.randrange(2), rng.choice([0, 4, 8])))
            else:
                types.append((rng.choice([0, 3600, -3600, 7200, 19800, 20700, -12600, 34200, -57360, 54822, 50, -1,
                                          rng.randrange(-57600, 57600)]), rng.randrange(2), rng.choice([0, 4, 8])))
        lo = rng.choice([-2 ** 31 + 10, -5000000000, -2000000000, 0, 1000000000]) if ver != b"\0" else -2 ** 31 + 10
        t = lo
        trs = []
        for i in range(ntr):
            if realistic:
                t += rng.choice([2 * 86400, 15778800, 13046400, 18316800, rng.randrange(2 * 86400, 40000000)])
            else:
                t += rng.choice([1, 2, 3600, 86400, 15778800, rng.randrange(1, 40000000)])
            if ver == b"\0" and t >= 2 ** 31 - 10:
                break
            y = rng.randrange(nty)
            if rng.random() < .8 and trs and y == trs[-1][1] and nty > 1:
                y = (y + 1) % nty
            trs.append((t, y))
        data = tzif.make(trs, types, version=ver)
        p = os.path.join(tmpd, "synth%03d_v%s_n%d" % (k, ver.decode("latin-1").replace("\0", "1"), len(trs)))
        with open(p, "wb") as fp:
            fp.write(data)
        out.append(("synthetic/" + os.path.basename(p), p, "synthetic-realistic" if realistic else "synthetic-hostile"))
    return out


def cli_task(task):
    """dconv --zone / --from-zone and dzone --next/--prev through the real tools"""
    bindir, name, path, seed = task
    import random
    rng = random.Random(seed)
    sh = Shard()
    z = tzif.load(path)
    if z.ntrans < 2:
        return sh
    idx = sorted(rng.sample(range(1, z.ntrans), min(12, z.ntrans - 1)))
    civ = lambda e: cal.Day(e // 86400 + cal.ORD_UNIX).ymd() + "T%02d:%02d:%02d" % (e % 86400 // 3600, e % 3600 // 60, e % 60)
    lo, hi = (cal.ORD_MIN - cal.ORD_UNIX) * 86400 + 86400 * 2, (cal.ORD_MAX - 606 - cal.ORD_UNIX) * 86400
    ts = []
    for i in idx:
        for d in (-1, 0, 1):
            t = z.trs[i] + d
            if lo < t < hi and not (i == z.ntrans - 1 and d == 0):
                ts.append((t, "at" if d == 0 else "just-before" if d < 0 else "just-after"))
    if not ts:
        return sh
    lines = [civ(t) for t, _ in ts]
    argv = [str(bindir / "dconv"), "--zone", path, "-f", "%FT%T"]
    r = run(argv, stdin=("\n".join(lines) + "\n").encode(), cpu=5, wall=60)
    sh.procs += 1
    kind = sh.check_san(r, "zone-cli", "zone:cli:dconv--zone")
    outs, _ = core.align_lines(lines, r)
    for (t, k), got in zip(ts, outs):
        want = civ(t + z.offset(t))
        c = ("cli", "dconv--zone", k)
        if got == want:
            sh.ok("zone-cli", c)
        else:
            sh.bad("zone-cli", "zone:cli:to-zone:%s:%s" % (k, "t<0" if t < 0 else "t>=0"),
                   "dconv --zone %s %s -> %r, file says %s" % (name, civ(t), got, want),
                   dict(argv=argv, input=civ(t), expected=want, observed=got), cls=c)
    # local -> UTC for unambiguous local times
    loc = [(t + z.offset(t), t, k) for t, k in ts if len(z.utc_candidates(t + z.offset(t))) == 1]
    if loc:
        lines = [civ(l) for l, _, _ in loc]
        argv = [str(bindir / "dconv"), "--from-zone", path, "-f", "%FT%T"]
        r = run(argv, stdin=("\n".join(lines) + "\n").encode(), cpu=5, wall=60)
        sh.procs += 1
        sh.check_san(r, "zone-cli", "zone:cli:dconv--from-zone")
        outs, _ = core.align_lines(lines, r)
        for (l, t, k), got in zip(loc, outs):
            c = ("cli", "dconv--from-zone", k)
            if got == civ(t):
                sh.ok("zone-cli", c)
            else:
                sh.bad("zone-cli", "zone:cli:from-zone:%s:%s" % (k, "t<0" if t < 0 else "t>=0"),
                       "dconv --from-zone %s %s -> %r, file says %s" % (name, civ(l), got, civ(t)),
                       dict(argv=argv, input=civ(l), expected=civ(t), observed=got), cls=c)
    # a time of day alone lives on the --base date: its offset is the one at base date + time
    hms_ = lambda s_: "%02d:%02d:%02d" % (s_ // 3600, s_ // 60 % 60, s_ % 60)
    for (t, k) in ts[:: max(1, len(ts) // 6)]:
        day = t // 86400
        base = cal.Day(day + cal.ORD_UNIX).ymd()
        for sod in sorted(set([0, 43200, 86399, t % 86400, (t % 86400 + 3600) % 86400, max(0, t % 86400 - 1)])):
            u = day * 86400 + sod
            off = z.offset(u)
            if off is None or not (lo < u < hi):
                continue
            want = hms_((sod + off) % 86400)
            argv = [str(bindir / "dconv"), "--base", base, "--zone", path, hms_(sod)]
            r = run(argv, cpu=5, wall=60)
            sh.procs += 1
            if sh.check_san(r, "zone-cli", "zone:cli:time-only"):
                continue
            got = r.out.decode("latin-1").strip()
            c = ("cli", "time-only--zone", "after-transition" if u >= t else "before-transition")
            if got == want:
                sh.ok("zone-cli", c)
            else:
                sh.bad("zone-cli", "zone:cli:time-only:%s" % c[2],
                       "dconv --base %s --zone %s %s -> %r, at %s the file says offset %+d: %s" % (base, name, hms_(sod), got, civ(u), off, want),
                       dict(argv=argv, expected=want, observed=got), cls=c)
    # dzone ZONE VALUE...: the zone's reading of an instant given as a civil UTC date-time, as @N and through -i %s
    zt = [(t, k) for t, k in ts[:: max(1, len(ts) // 5)]]
    for how in ("civil", "@", "-i%s"):
        vals = [civ(t) if how == "civil" else "@%d" % t if how == "@" else "%d" % t for t, _ in zt]
        if how == "-i%s":
            vals = [v for v in vals if not v.startswith("-")]           # a leading minus is an option here
            zt_ = [(t, k) for t, k in zt if t >= 0]
        else:
            zt_ = zt
        if not vals:
            continue
        argv = [str(bindir / "dzone")] + (["-i", "%s"] if how == "-i%s" else []) + [path, "--"] + vals
        r = run(argv, cpu=5, wall=60)
        sh.procs += 1
        sh.check_san(r, "zone-cli", "zone:cli:dzone")
        outl = r.out.decode("latin-1").split("\n")[:-1]
        for n_, (t, k) in enumerate(zt_):
            got = outl[n_] if n_ < len(outl) else None
            off = z.offset(t)
            want = civ(t + off)
            wantz = "%s%02d:%02d" % ("+" if off >= 0 else "-", abs(off) // 3600, abs(off) // 60 % 60)
            c = ("cli", "dzone", how, k)
            if got is not None and got.startswith(want) and (off % 900 or got[19:25] == wantz):
                sh.ok("zone-cli", c)
            else:
                sh.bad("zone-cli", "zone:cli:dzone:%s:%s" % (how, "local" if got is None or not got.startswith(want) else "offset"),
                       "%s -> line %d %r, file says %s%s" % (core.shq(argv)[:200], n_, got, want, wantz),
                       dict(argv=argv, expected=want + wantz, observed=got), cls=c)
    # dzone --next / --prev: adjacent table entries
    for i in idx[:4]:
        if i + 1 >= z.ntrans:
            continue
        a, b = z.trs[i], z.trs[i + 1]
        if not (lo < a and b < hi) or b - a < 3:
            continue
        mid = (a + b) // 2
        for flag, want_t in (("--next", b), ("--prev", a)):
            argv = [str(bindir / "dzone"), flag, path, civ(mid)]
            r = run(argv, cpu=5, wall=60)
            sh.procs += 1
            sh.check_san(r, "zone-cli", "zone:cli:dzone" + flag)
            out = r.out.decode("latin-1")
            # output: "<local before>  ->  <local after> ..." : check that the UTC-side instant appears
            o_before = z.types[z.tys[i if flag == "--prev" else i + 1 - 1]][0] if False else None
            ib = (i - 1) if flag == "--prev" else i
            ia = i if flag == "--prev" else i + 1
            want_a = civ(want_t + z.types[z.tys[ib]][0])[:19]
            want_b = civ(want_t + z.types[z.tys[ia]][0])[:19]
            c = ("cli", "dzone" + flag)
            if want_a in out and want_b in out:
                sh.ok("zone-cli", c)
            else:
                sh.bad("zone-cli", "zone:cli:dzone%s" % flag,
                       "%s -> %r; adjacent entry %d is at %s (local %s -> %s)" %
                       (core.shq(argv), out.strip()[:200], ia, civ(want_t), want_a, want_b),
                       dict(argv=argv, expected=[want_a, want_b], observed=out.strip()), cls=c)
    return sh


def _dispatch(t):
    return zone_task(t[1]) if t[0] == "zone" else cli_task(t[1])


FIXED_ZONES = ["Asia/Hebron", "Asia/Gaza", "Europe/Berlin", "America/St_Johns", "Asia/Kathmandu", "Asia/Jayapura",
               "Pacific/Apia", "Australia/Lord_Howe", "Africa/Casablanca", "Europe/Dublin", "America/Caracas",
               "Pacific/Kiritimati", "Asia/Tehran", "Antarctica/Troll", "Etc/GMT+12", "UTC", "Africa/Monrovia",
               "right/Europe/London", "America/Godthab", "Asia/Pyongyang"]


def main(tier, seed):
    ctx = core.Ctx("C12", tier, seed)
    bindir = ctx.bin("san")
    rng = ctx.rng
    quick = tier == "quick"
    allz = tzif.all_zone_files()
    byname = dict(allz)
    chosen = [(n, byname[n]) for n in FIXED_ZONES if n in byname]
    # names that are aliases resolve to the same image; add them by path if missing
    for n in FIXED_ZONES:
        p = os.path.join("/usr/share/zoneinfo", n)
        if n not in byname and os.path.exists(p):
            chosen.append((n, p))
    rest = [x for x in allz if x[0] not in FIXED_ZONES]
    chosen += rng.sample(rest, min(len(rest), 250 if quick else len(rest)))
    tmpd = tempfile.mkdtemp(prefix="verif-c12-")
    try:
        syn = synth_files(rng, 120 if quick else 1500, tmpd)
        tasks = [("zone", (bindir, n, p, seed * 1000003 + i, "real")) for i, (n, p) in enumerate(chosen)]
        tasks += [("zone", (bindir, n, p, seed * 1000003 + 5000 + i, c)) for i, (n, p, c) in enumerate(syn)]
        tasks += [("cli", (bindir, n, p, seed * 7 + i)) for i, (n, p) in enumerate(chosen[:80 if quick else 900])]
        for sh in core.pmap(_dispatch, tasks):
            ctx.merge(sh)
    finally:
        import shutil
        shutil.rmtree(tmpd, ignore_errors=True)
    ctx.rule = ("events = (zone image, query kind L/R/U, instant, handle mode) judged against an RFC 8536 reader of the "
                "same file: every (merged) transition -1/0/+1 s, midpoints, before the first, after the last (+400 d, "
                "+2^40 s), random interior; each asked on a fresh handle (first query), in an ascending and in a "
                "descending sweep on one handle; %d real zone images (fixed extreme ones + seeded sample of the %d "
                "distinct images) + %d synthetic files (versions 1/2/3; 0..600 transitions; odd offsets; 1-second "
                "spacing); dconv --zone/--from-zone, dzone ZONE VALUE (civil, @N, -i %%s) and dzone --next/--prev on a sample. distinct_nontrivial = "
                "distinct (real|synthetic, query, boundary kind, mode, index>=256)" % (len(chosen), len(allz), len(syn)))
    ctx.cov["zones_visited"] = len(chosen)
    ctx.cov["distinct_zone_images_available"] = len(allz)
    ctx.cov["synthetic_files"] = len(syn)
    ctx.assumptions = ["instants before the first listed transition are outside the property",
                       "no POSIX footer: the last listed offset stays in force (as the statement says)",
                       "local times in a gap: any result that used a table offset is accepted"]
    ctx.min_evals = 20000
    return ctx.finish()


if __name__ == "__main__":
    sys.exit(main("quick", 1))
