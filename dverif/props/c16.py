"""C16 - dateround lands on the nearest requested target and is idempotent"""
import sys

from .. import core
from ..core import Shard, run, res_replay
from ..oracle import cal, dur
from .. import addsweep

WDN = ["Mon", "Tue", "Wed", "Thu", "Fri", "Sat", "Sun"]
WDL = ["Monday", "Tuesday", "Wednesday", "Thursday", "Friday", "Saturday", "Sunday"]
MON = cal.MON_ABBR
LO, HI = cal.ORD_MIN + 800, cal.ORD_MAX - 1500


def hms(s):
    return "%02d:%02d:%02d" % (s // 3600, s // 60 % 60, s % 60)


def ym_of(o):
    D = cal.Day(o)
    return D.y * 12 + D.m - 1, D.d


def ord_of(ym, d):
    from datetime import date
    y, m = divmod(ym, 12)
    m += 1
    return date(y, m, min(d, cal.mdays(y, m))).toordinal()


# ---------------------------------------------------------------------------
# the model: one rounding step on (ordinal or None, second-of-day or None)
# spec = (kind, value, down)
def model(o, s, spec, nxt):
    kind, v, down = spec
    sg = -1 if down else 1

    def want(c_cmp):
        # c_cmp = candidate - input in natural order, >0 later
        if not nxt:
            return c_cmp * sg >= 0
        return c_cmp * sg > 0

    if kind == "wd":
        # nearest day with weekday v (0=Mon) on the requested side, time kept
        k = 0
        while True:
            c = o + sg * k
            if (c - 1) % 7 == v and want(c - o):
                return c, s
            k += 1
    if kind == "dom":
        ym, d = ym_of(o)
        for k in range(0, 4):
            c = ord_of(ym + sg * k, v)
            if want(c - o):
                return c, s
        raise AssertionError("dom")
    if kind in ("mon", "qtr"):
        m = v if kind == "mon" else 3 * v - 2
        D = cal.Day(o)
        for k in range(0, 3):
            c = ord_of((D.y + sg * k) * 12 + m - 1, D.d)
            if want(c - o):
                return c, s
        raise AssertionError("mon")
    if kind == "wk":
        from datetime import date
        D = cal.Day(o)
        for k in range(0, 3):
            y = D.iy + sg * k
            w = min(v, dur.iso_weeks_in_year(y))
            c = date.fromisocalendar(y, w, D.iwd).toordinal()
            if want(c - o):
                return c, s
        raise AssertionError("wk")
    if kind in ("h", "m", "s", "/h", "/m", "/s"):
        if kind == "h":
            per, ph = 86400, v * 3600 + s % 3600
        elif kind == "m":
            per, ph = 3600, v * 60 + s % 60
        elif kind == "s":
            per, ph = 60, v
        else:
            per, ph = v * {"/h": 3600, "/m": 60, "/s": 1}[kind], 0
        base = (o if o is not None else 0) * 86400 + s
        r = (base - ph) % per
        if r == 0:
            x = base if not nxt else base + sg * per
        else:
            x = base - r + (per if sg > 0 else 0)
        if o is None:
            return None, x % 86400
        return x // 86400, x % 86400
    if kind in ("/d", "/b"):
        isb = (lambda c: dur.is_bday(c)) if kind == "/b" else (lambda c: True)
        if s is None:
            k = 0
            while True:
                c = o + sg * k
                if isb(c) and want(c - o):
                    return c, None
                k += 1
        base = o * 86400 + s
        k = 0
        while True:
            c = o + sg * k
            if isb(c) and want(c * 86400 - base):
                return c, 0
            k += 1
    if kind in ("/mo", "/q", "/y"):
        n = v * {"/mo": 1, "/q": 3, "/y": 12}[kind]
        ym, d = ym_of(o)
        base = o * 86400 + (s or 0)
        ym0 = ym - ym % n
        for k in (0, 1, -1):
            pass
        cands = [ym0 - n, ym0, ym0 + n]
        best = None
        for c in (cands if sg > 0 else reversed(cands)):
            co = ord_of(c, 1)
            if want(co * 86400 - base):
                best = co
                break
        return best, (0 if s is not None else None)
    raise KeyError(kind)


def spec_text(rng, spec):
    kind, v, down = spec
    if kind == "wd":
        t = rng.choice([WDN, WDN, WDL])[v]
    elif kind == "dom":
        t = rng.choice(["%dd", "%d"]) % v
        if not down and rng.random() < .3:
            t = "+" + t
    elif kind == "mon":
        t = rng.choice([MON[v - 1], cal.MON_LONG[v - 1], "%dmo" % v])
    elif kind == "qtr":
        t = "%dq" % v
    elif kind == "wk":
        t = "%dw" % v
    elif kind in ("h", "m", "s"):
        t = "%d%s" % (v, kind)
    elif kind == "/b":
        return "/-1b" if down else "/1b"
    elif kind == "/d":
        return "/-1d" if down else "/1d"
    else:
        return "/%s%d%s" % ("-" if down else "", v, kind[1:])
    return ("-" if down else "") + t


def rand_spec(rng, group):
    down = rng.random() < .45
    if group == "wd":
        return ("wd", rng.randrange(7), down)
    if group == "dom":
        return ("dom", rng.choice([1, 2, 15, 28, 29, 30, 31, rng.randrange(1, 32)]), down)
    if group == "mon":
        if rng.random() < .2:
            return ("qtr", rng.randrange(1, 5), down)
        return ("mon", rng.choice([1, 2, 2, 12, rng.randrange(1, 13)]), down)
    if group == "wk":
        return ("wk", rng.choice([1, 52, 53, 53, rng.randrange(1, 54)]), down)
    if group == "hms":
        k = rng.choice(["h", "m", "s"])
        v = rng.choice([0, 1, 23, rng.randrange(24)]) if k == "h" else rng.choice([0, 1, 59, 30, rng.randrange(60)])
        if v == 0:
            down = False       # '-0h' has no agreed reading
        return (k, v, down)
    if group == "/hms":
        k = rng.choice(["/h", "/m", "/s"])
        v = rng.choice([1, 2, 3, 4, 6, 8, 12, 24]) if k == "/h" else rng.choice([1, 2, 3, 4, 5, 6, 10, 12, 15, 20, 30, 60])
        return (k, v, down)
    if group == "/d":
        return (rng.choice(["/d", "/b"]), 1, down)
    if group == "/mo":
        k = rng.choice(["/mo", "/q", "/y"])
        v = rng.choice([1, 2, 3, 4, 6, 12]) if k == "/mo" else rng.choice([1, 2, 4]) if k == "/q" else rng.choice([1, 2, 4, 5, 10, 100])
        return (k, v, down)
    raise KeyError(group)


# which input kinds a spec group is defined on
DOM = {"wd": ["ymd", "ymdT", "ywd", "ywdT", "yd", "ymcw"], "dom": ["ymd", "ymd", "ymdT", "ymdT", "ywd", "yd", "ywdT"],
       "mon": ["ymd", "ymd", "ymdT", "ymdT", "ywd", "yd", "ywdT"], "wk": ["ywd", "ywdT"],
       "hms": ["ymdT", "ymdT", "time", "ywdT"], "/hms": ["ymdT", "ymdT", "time", "ywdT", "epoch"], "/d": ["ymd", "ymdT", "ywd", "yd", "ywdT"],
       "/mo": ["ymd", "ymd", "ymdT", "ymdT", "ywd", "yd", "ywdT"]}


def rand_value(rng, ikind, bnd):
    o = rng.choice(bnd) if rng.random() < .6 else rng.randrange(LO, HI)
    o = max(LO, min(HI, o))
    s = rng.choice([0, 0, 1, 59, 60, 3599, 3600, 43200, 86340, 86399, 86370, rng.randrange(86400), rng.randrange(86400)])
    if ikind == "time":
        return None, s
    if ikind == "epoch":
        # seconds since 1970 read with -i %s: the value is held as one number, rounded by its own routine
        o = rng.randrange(cal.ORD_UNIX - 40000, cal.ORD_UNIX + 40000) if rng.random() < .8 else o
        return o, s
    if ikind.endswith("T"):
        return o, s
    return o, None


def text_of(ikind, o, s):
    """acceptable texts"""
    if ikind == "time":
        return (hms(s),)
    if ikind == "epoch":
        return ("%d" % ((o - cal.ORD_UNIX) * 86400 + s),)
    K = ikind.rstrip("T")
    ts = addsweep.ktext(K, o)
    if s is None:
        return ts
    return tuple(t + "T" + hms(s) for t in ts)


def group_task(task):
    bindir, seed, ngroups, nvals = task
    import random
    rng = random.Random(seed)
    sh = Shard()
    bnd = cal.boundary_ordinals(3)
    for _ in range(ngroups):
        group = rng.choice(list(DOM))
        ikind = rng.choice(DOM[group])
        nxt = rng.random() < .4
        specs = [rand_spec(rng, group)]
        if rng.random() < .25:
            g2 = rng.choice([g for g in DOM if ikind in DOM[g]])
            specs.append(rand_spec(rng, g2))
        sargs = [spec_text(rng, sp) for sp in specs]
        okind = ikind
        ofmt = []
        if ikind == "epoch":
            ofmt = ["-i", "%s", "-f", "%s"]
        elif ikind != "time" and rng.random() < .3:
            # print in another calendar: stale helper fields of the rounded value show up there
            okind = rng.choice([k for k in ("ymd", "ywd", "yd") if k != ikind.rstrip("T")] if ikind != "ldn" else ["ymd"]) + ("T" if ikind.endswith("T") else "")
            ofmt = ["-f", {"ymd": "%F", "ywd": "%G-W%V-%u", "yd": "%Y-%j"}[okind.rstrip("T")] + ("T%T" if ikind.endswith("T") else "")]
        argv = [str(bindir / "dround")] + (["-n"] if nxt else []) + ofmt + ["--"] + sargs
        vals = [rand_value(rng, ikind, bnd) for _ in range(nvals)]
        exp, keep = [], []
        for (o, s) in vals:
            eo, es = o, s
            for sp in specs:
                eo, es = model(eo, es, sp, nxt)
                if eo is not None and not (cal.ORD_MIN + 10 <= eo <= cal.ORD_MAX - 700):
                    break
            else:
                exp.append((eo, es))
                keep.append((o, s))
        vals = keep
        if not vals:
            continue
        inputs = [text_of(ikind, o, s)[0] for (o, s) in vals]
        r = run(argv, stdin=("\n".join(inputs) + "\n").encode(), cpu=10, wall=120)
        sh.procs += 1
        cls0 = (ikind + (">" + okind if ofmt and ikind != "epoch" else ""), "+".join(sp[0] for sp in specs), "next" if nxt else "nonext")
        if sh.check_san(r, "round", "round:%s:%s" % (ikind, cls0[1])):
            continue
        got, crash = core.align_lines(inputs, r)
        if crash is not None:
            sh.bad("round", "round:%s:%s:misaligned" % (ikind, cls0[1]), "%s: output does not line up with the input (%s)" %
                   (core.shq(argv), crash), res_replay(r), cls=cls0)
            continue
        outs = []
        for (o, s), (eo, es), inp, g, spx in zip(vals, exp, inputs, got, [specs] * len(vals)):
            et = text_of(okind, eo, es)
            down = "down" if specs[0][2] else "up"
            moved = "unchanged" if (eo, es) == (o, s) else "moved"
            carry = "daycarry" if (o is not None and eo != o and specs[0][0] in ("h", "m", "s", "/h", "/m", "/s")) else \
                "yearcarry" if (o is not None and cal.Day(o).y != cal.Day(eo).y) else \
                "monthcarry" if (o is not None and cal.Day(o).m != cal.Day(eo).m) else "nocarry"
            cls = cls0 + (down, moved, carry)
            if g in et:
                sh.ok("round", cls)
                outs.append(g)
            else:
                sh.bad("round", "round:%s:%s:%s:%s:%s" % (ikind, cls0[1], cls0[2], down, moved),
                       "echo %s | dround %s%s -> %r, model %r" % (inp, "-n " if nxt else "", " ".join(sargs), g, et[0]),
                       dict(argv=argv, stdin=inp, expected=et[0], got=g), cls=cls)
        if outs:
            sh.sample(dict(cmd=core.shq(argv), input=inputs[0], output=got[0]), cap=2)
        # idempotence on the tool's own output, no oracle involved
        if not nxt and outs and len(specs) == 1 and (not ofmt or ikind == "epoch"):
            r2 = run(argv, stdin=("\n".join(outs) + "\n").encode(), cpu=10, wall=120)
            sh.procs += 1
            if sh.check_san(r2, "idem", "idem:%s:%s" % (ikind, cls0[1])):
                continue
            got2, crash = core.align_lines(outs, r2)
            if crash is not None:
                sh.bad("idem", "idem:%s:%s:misaligned" % (ikind, cls0[1]), core.shq(argv), res_replay(r2), cls=cls0)
                continue
            for a, b in zip(outs, got2):
                if a == b:
                    sh.ok("idem", cls0 + ("idem",))
                else:
                    sh.bad("idem", "idem:%s:%s" % (ikind, cls0[1]),
                           "echo %s | dround %s -> %r: rounding twice differs from rounding once" % (a, " ".join(sargs), b),
                           dict(argv=argv, stdin=a, expected=a, got=b), cls=cls0 + ("idem",))
        # -n results are strictly different
        if nxt and len(specs) == 1 and (not ofmt or ikind == "epoch"):
            for inp, g, v, e in zip(inputs, got, vals, exp):
                if v == e:
                    # a time of day that comes round again on the next day reads the same
                    continue
                if g is not None and g == inp:
                    sh.bad("strict", "strict:%s:%s" % (ikind, cls0[1]),
                           "echo %s | dround -n %s returned the input" % (inp, " ".join(sargs)),
                           dict(argv=argv, stdin=inp, got=g), cls=cls0 + ("strict",))
                else:
                    sh.ok("strict", cls0 + ("strict",))
    return sh


def frac_task(task):
    """co-classes on values with fractional seconds: the nanoseconds are a finer field too, and the rest of the result is
    what the same value without its fraction rounds to (differential, no oracle)"""
    bindir, seed, n = task
    import random
    rng = random.Random(seed)
    sh = Shard()
    for spec in ("/1d", "/-1d", "/1mo", "/-1mo", "/1q", "/1y", "/1h", "/-1h", "/15m", "/-5m", "/1b"):
        vals = []
        for _ in range(n):
            o = rng.randrange(cal.ORD_MIN + 800, cal.ORD_MAX - 2000)
            sod = rng.randrange(1, 86399)
            if sod % 300 == 0:
                sod += 7
            vals.append("%sT%02d:%02d:%02d.%09d" % (cal.Day(o).ymd(), sod // 3600, sod // 60 % 60, sod % 60, rng.choice([500000000, 1, 999999999, 250000000])))
        for nx in ([], ["-n"]):
            argv = [str(bindir / "dround")] + nx + ["-i", "%FT%T.%N", "-f", "%FT%T.%N", "--", spec]
            r = run(argv, stdin=("\n".join(vals) + "\n").encode(), cpu=30, wall=120)
            argv2 = [str(bindir / "dround")] + nx + ["-f", "%FT%T", "--", spec]
            r2 = run(argv2, stdin=("\n".join(v[:19] for v in vals) + "\n").encode(), cpu=30, wall=120)
            sh.procs += 2
            if sh.check_san(r, "san", "round:frac:san") or sh.check_san(r2, "san", "round:frac:san"):
                continue
            o1 = r.out.decode("latin-1").split("\n")[:-1]
            o2 = r2.out.decode("latin-1").split("\n")[:-1]
            for k, v in enumerate(vals):
                a = o1[k] if k < len(o1) else None
                b = o2[k] if k < len(o2) else None
                c = ("frac", spec.lstrip("/-0123456789"), "-n" if nx else "plain", "down" if "-" in spec else "up")
                if a is not None and b is not None and a == b + ".000000000":
                    sh.ok("round", c)
                else:
                    sh.bad("round", "round:frac:%s:%s" % (c[1], "ns-kept" if a and b and a.startswith(b) else "differs"),
                           "echo %s | %s -> %r; without the fraction the value rounds to %r, and the nanoseconds are a finer field" %
                           (v, core.shq(argv), a, b), dict(argv=argv, stdin=v, expected=(b or "") + ".000000000", observed=a), cls=c)
    return sh


def _dispatch(t):
    return frac_task(t[1]) if t[0] == "frac" else group_task(t)


def main(tier, seed):
    ctx = core.Ctx("C16", tier, seed)
    bindir = ctx.bin("san")
    quick = tier == "quick"
    tasks = [(bindir, seed * 7919 + i, 40 if quick else 120, 60 if quick else 120) for i in range(64 if quick else 640)]
    tasks += [("frac", (bindir, seed * 31 + i, 25)) for i in range(2 if quick else 20)]
    for sh in core.pmap(_dispatch, tasks):
        ctx.merge(sh)
    ctx.rule = ("events = one (input value, rounding spec list, -n) evaluation by the real dround reading the value from stdin; "
                "oracle: nearest candidate on the requested side, computed on ordinals/seconds (weekday: days with that weekday; "
                "day-of-month: that day in each month, clamped to the month's end; month/quarter: same day in that month of each "
                "year, clamped; ISO week: same weekday in that week of each ISO year, clamped to the year's last week; h/m/s "
                "values: instants congruent to the target with finer fields kept; co-classes /N h,m,s, /1d, /1b, /N mo,q,y: "
                "multiples of N units with finer fields zero); 'idem' = the tool's own output rounded again by the tool is "
                "unchanged (no oracle); 'strict' = with -n the output differs from the input; several specs compose left to "
                "right; co-classes from hours up on values with fractional seconds: the nanoseconds are zero and the rest is what the value without fraction rounds to. distinct_nontrivial = distinct (input kind, target kinds, -n, direction, moved/unchanged, carry class)")
    ctx.assumptions = ["day-of-month, month, quarter and month/quarter/year co-class targets are judged on ymd, ywd and yd "
                       "inputs, week targets on ywd inputs, weekday targets on ymd/ywd/yd/ymcw inputs; month-based targets "
                       "on ymcw and business-day-of-month targets are not judged",
                       "time targets on date-only inputs and date targets on time-only inputs are no-ops by design and not judged",
                       "inputs lie 800+ days inside the supported range so that every result is representable"]
    ctx.min_evals = 5000
    return ctx.finish()


if __name__ == "__main__":
    sys.exit(main("quick", 1))
