"""C05 - datediff is the inverse of dateadd

The oracle does NOT compute durations here: the real ddiff prints them, the
real library (dt_io_strpdtdur + dt_dtadd, the code path of `dadd`) adds them
back to the earlier value through the dutdrv driver, and the monitor only
supplies ordering and equality.  The anchor-is-earlier half is additionally
replayed through the real dadd tool (`dadd DATE < durations`).
"""
import sys

from .. import core, diffrows as dr
from ..core import Shard, run, align_lines, drive, req
from ..oracle import cal, dur

# (units in format order, needs time, spelling of the earlier value the duration is applied to)
FORMATS = [
    ("d", False, "ymd"), ("wd", False, "ymd"), ("md", False, "ymd"), ("Ymd", False, "ymd"),
    ("Yd", False, "ymd"), ("Ywd", False, "ywd"), ("mwd", False, "ymd"), ("Ymwd", False, "ymd"),
    ("dHMS", True, "ymd"), ("HMS", True, "ymd"), ("S", True, "ymd"), ("wdHMS", True, "ymd"),
    ("mdHMS", True, "ymd"), ("YmdHMS", True, "ymd"), ("MS", True, "ymd"), ("dS", True, "ymd"),
    # the fixed-length units added back in other carriers of the value than ymd
    ("wd", False, "ywd"), ("d", False, "ywd"), ("wd", False, "ymcw"), ("d", False, "yd"),
    ("wdHMS", True, "epoch"), ("dHMS", True, "epoch"), ("S", True, "epoch"),
]
DUNIT = {"Y": "y", "m": "mo", "w": "w", "d": "d", "H": "h", "M": "m", "S": "s"}
INCALS = ["ymd", "ywd", "ymcw"]


def group_task(task):
    bindir, units, with_time, spelling, group, incal = task
    sh = Shard()
    fmt = " ".join("%" + u for u in units)
    texts = [dr.text(e, with_time, incal) for e in group]
    rows = []
    for i in range(len(group)):
        key, outs, s2 = dr.row_task((bindir, i, fmt, texts[i], texts))
        sh.merge(s2)
        rows.append(outs)
    ofmt = "%FT%T" if with_time else "%F"
    reqs, meta = [], []
    for i, ea in enumerate(group):
        for j, eb in enumerate(group):
            got = rows[i][j]
            E, L = (ea, eb) if ea <= eb else (eb, ea)
            oE, _ = dr.split(E)
            D = cal.Day(oE)
            if ("Y" in units or "m" in units) and D.d > 28:
                sh.skip("earlier-dom>28")
                continue
            if spelling == "ywd" and D.iw > 52:
                sh.skip("iso-week-53-start")
                continue
            sgn = "eq" if ea == eb else "+" if eb > ea else "-"
            # borrow class
            _, sa = dr.split(E)
            oL, sl = dr.split(L)
            DL = cal.Day(oL)
            b = []
            if with_time and sl < sa:
                b.append("time-borrow")
            if DL.d < D.d:
                b.append("day-borrow" + ("-feb" if DL.m == 3 else ""))
            if any(cal.is_leap(y) for y in range(D.y, DL.y + 1)):
                b.append("leap-in-span")
            c = ("".join(units), incal, sgn, "+".join(b) or "no-borrow")
            p = dr.parse_components(list(units), got) if got is not None else None
            if p is None:
                sh.bad("inverse", "inverse:%s:unparsable" % units, "ddiff %s %s -f %r -> %r" %
                       (texts[i], texts[j], fmt, got), dict(argv=["ddiff", texts[i], texts[j], "-f", fmt]), cls=c)
                continue
            sign, v, nminus = p
            # (ii) sign says which one is earlier
            if (eb < ea) != (sign < 0) and any(v.values()):
                sh.bad("sign", "sign:%s:%s" % (units, sgn), "ddiff %s %s -f %r -> %r: sign does not match the order" %
                       (texts[i], texts[j], fmt, got), dict(argv=["ddiff", texts[i], texts[j], "-f", fmt]), cls=c)
            else:
                sh.ok("sign", c)
            # (iii) antisymmetry: same magnitudes both ways
            rev = rows[j][i]
            pr = dr.parse_components(list(units), rev) if rev is not None else None
            if i < j:
                feb = ":febult" if (D.m == 2 and D.d == cal.mdays(D.y, 2)) else \
                      ":isoyrend" if (D.iwd == 7 and D.iw == dur.iso_weeks_in_year(D.iy)) else ""
                if pr is None or pr[1] != v:
                    sh.bad("antisym", "antisym:%s:%s%s" % (units, "dt" if with_time else "d", feb),
                           "ddiff %s %s -f %r = %r but swapped operands give %r" % (texts[i], texts[j], fmt, got, rev),
                           dict(argv=["ddiff", texts[i], texts[j], "-f", fmt], swapped=rev), cls=c)
                else:
                    sh.ok("antisym", c)
            if any(x > 2 ** 31 - 1 for x in v.values()):
                sh.skip("component-exceeds-what-dadd-accepts")
                continue
            # (i) applied to the earlier value, largest unit first, lands on the later one
            durs = ["+%d%s" % (v[u], DUNIT[u]) for u in "YmwdHMS" if u in v]
            reqs.append(req("A", None, dr.text(E, with_time, spelling), ofmt, *durs))
            meta.append((i, j, got, dr.text(L, with_time, "ymd"), c, durs, dr.text(E, with_time, spelling), sgn, D))
    answers, deaths = drive(bindir / "dutdrv", reqs, sh)
    for ix, r in deaths:
        sh.bad("inverse", "inverse:driver-died:%s" % (r.san_kind() or r.sig or r.rc),
               "dutdrv died at %r" % (reqs[ix] if ix >= 0 else "?"), core.res_replay(r))
    for a, (i, j, got, want, c, durs, Et, sgn, D) in zip(answers, meta):
        if a is None:
            continue
        res = bytes.fromhex(a.split()[1]).decode("latin-1") if a.startswith("OK ") and a.split()[1] != "-" else a
        if res == want:
            sh.ok("inverse", c)
        else:
            feb = ":febult" if (D.m == 2 and D.d == cal.mdays(D.y, 2)) else \
                  ":isoyrend" if (D.iwd == 7 and D.iw == dur.iso_weeks_in_year(D.iy)) else ""
            sh.bad("inverse", "inverse:%s:%s:%s%s" % (units, "dt" if with_time else "d",
                                                       "rev" if sgn == "-" else "fwd", feb),
                   "ddiff %s %s -f %r = %r, but %s %s = %s, not %s" %
                   (texts[i], texts[j], fmt, got, Et, " ".join(durs), res, want),
                   dict(argv=["ddiff", texts[i], texts[j], "-f", fmt], dadd=["dadd", Et] + durs,
                        expected=want, observed=res), cls=c)
    # the anchor-is-earlier half once more through the real dadd tool
    i = 0
    E = group[0]
    oE, _ = dr.split(E)
    D = cal.Day(oE)
    if not ((("Y" in units or "m" in units) and D.d > 28) or (spelling == "ywd" and D.iw > 52)):
        lines, wants = [], []
        for j, eb in enumerate(group):
            p = dr.parse_components(list(units), rows[0][j]) if rows[0][j] else None
            if p is None or any(x > 2 ** 31 - 1 for x in p[1].values()):
                continue
            lines.append(" ".join("+%d%s" % (p[1][u], DUNIT[u]) for u in "YmwdHMS" if u in p[1]))
            wants.append(dr.text(eb, with_time, "ymd"))
        argv = [str(bindir / "dadd"), "-f", ofmt, dr.text(E, with_time, spelling)]
        r = run(argv, stdin=("\n".join(lines) + "\n").encode(), cpu=30, wall=120)
        sh.procs += 1
        sh.check_san(r, "san", "inverse:dadd:san")
        outl = r.out.decode("latin-1").split("\n")[:-1]
        for k, (ln, w) in enumerate(zip(lines, wants)):
            g = outl[k] if k < len(outl) else None
            if g == w:
                sh.ok("inverse-tool", ("".join(units), "tool"))
            else:
                sh.bad("inverse-tool", "inverse-tool:%s:%s" % (units, "dt" if with_time else "d"),
                       "%s with duration line %r -> %r, expected %s" % (core.shq(argv), ln, g, w),
                       dict(argv=argv, stdin=ln, expected=w, observed=g))
    sh.sample(dict(ddiff="ddiff %s %s -f '%s'" % (texts[0], texts[-1], fmt), out=rows[0][-1]), cap=1)
    return sh


def main(tier, seed):
    ctx = core.Ctx("C05", tier, seed)
    bindir = ctx.bin("san")
    rng = ctx.rng
    quick = tier == "quick"
    tasks = []
    ngroups = 12 if quick else 60
    gsize = 30 if quick else 44
    for units, wt, sp in FORMATS:
        for g in range(ngroups):
            incal = INCALS[g % len(INCALS)] if g else "ymd"
            tasks.append((bindir, units, wt, sp, dr.make_group(rng, wt, size=gsize), incal))
    for sh in core.pmap(group_task, tasks):
        ctx.merge(sh)
    ctx.rule = ("events per ordered pair (A,B) of a group and format: sign matches order; ddiff(B,A) has the "
                "magnitudes of ddiff(A,B); the printed components applied to the earlier value largest unit first "
                "by the real library add (dutdrv A = dt_io_strpdtdur + dt_dtadd; anchor half also through the dadd "
                "tool) land exactly on the later value. %d formats (%s), input calendars %s, %d groups x %d instants "
                "per format (dense neighbours, unit-boundary offsets, far partners; day-of-month <= 28). "
                "distinct_nontrivial = distinct (format, input calendar, sign, borrow class)" %
                (len(FORMATS), " ".join(f[0] for f in FORMATS), INCALS, ngroups, gsize))
    ctx.assumptions = ["year+week durations are ISO-week-calendar durations and are applied to the ywd spelling",
                       "formats with %Y/%m: earlier day-of-month <= 28; ISO formats: earlier week <= 52",
                       "business-day formats (%db) are C07's"]
    ctx.min_evals = 50000
    return ctx.finish()


if __name__ == "__main__":
    sys.exit(main("quick", 1))
