"""C13 - results do not depend on what was processed before (no hidden state)

Differential monitor over histories: the answer for one value inside a run on
many values (arguments or stdin lines, any order, any priming prefix) must be
byte-identical to the answer of a run on that value alone; for zones the answer
on a handle with an arbitrary query history must equal the fresh-handle answer
(and the zone-file oracle's, so that "both wrong the same way" is excluded).
"""
import os
import sys

from .. import core
from ..core import Shard, run, align_lines, drive, res_replay
from ..oracle import tzif, cal

POOL_DATES = [
    "2012-01-31", "2012-02-29", "2012-02-30", "2011-02-29", "2012-12-31", "1999-12-31", "2000-01-01", "1601-01-01",
    "4000-07-04", "2012-W01-7", "2015-W53-4", "2012-366", "2011-365", "2012-02-05-03", "2012-01-01-07",
    "2012-02-03b", "2012-03-01", "2038-01-19", "1969-12-31", "1970-01-01", "2012-06-30", "2012-07-01",
    "2100-02-28", "2400-02-29", "1900-03-01", "2012-10-28", "2012-03-25", "2012-03-11", "2012-11-04",
]
POOL_DT = [
    "2012-01-31T23:59:59", "2012-02-29T00:00:00", "2012-03-25T01:59:59", "2012-03-25T02:30:00", "2012-03-25T03:00:00",
    "2012-10-28T00:59:59", "2012-10-28T01:30:00", "2012-10-28T02:30:00", "1950-01-01T00:00:00", "1969-12-31T23:59:59",
    "1970-01-01T00:00:00", "2037-10-25T01:00:00", "2038-01-19T03:14:08", "2012-06-30T23:59:59", "2012-07-01T00:00:00",
    "2012-01-01T24:00:00", "1920-06-15T12:00:00", "1893-04-01T00:00:00", "2099-12-31T23:59:59", "2012-W01-7T12:00:00",
    "2012-02-05-03T08:15:00", "1941-05-11T02:00:00", "1916-05-21T02:30:00", "2012-02-30T10:00:00",
]
POOL_JUNK = ["", "foo bar", "2012-13-01", "12:99:00", "-", "20120101", "2012-01", "0000-00-00", "T", "2012-01-01x",
             "x2012-01-01", "99999-01-01", "2012-1-1", "+1d", "2012-W54-1", "2012-02-31b"]

# (name, tool, args, pool kinds, mode) ; mode: "lines" (stdin lines) or "args"
def option_sets():
    S = []
    P = ("d", "dt", "junk")
    S.append(("dconv", "dconv", [], P))
    S.append(("dconv-f", "dconv", ["-f", "%F %a %j %V %q"], P))
    S.append(("dconv-ywd", "dconv", ["-f", "ywd"], P))
    S.append(("dconv-ymcw", "dconv", ["-f", "ymcw"], P))
    S.append(("dconv-ldn", "dconv", ["-f", "ldn"], P))
    S.append(("dconv-s", "dconv", ["-f", "%s"], P))
    S.append(("dconv-S", "dconv", ["-S", "-f", "%d.%m.%Y"], P))
    S.append(("dconv-zone", "dconv", ["--zone", "Europe/Berlin", "-f", "%FT%T%Z"], ("dt", "junk")))
    S.append(("dconv-fromzone", "dconv", ["--from-zone", "America/New_York", "-f", "%FT%T"], ("dt", "junk")))
    S.append(("dconv-zone2", "dconv", ["--from-zone", "Asia/Tokyo", "--zone", "Asia/Jayapura"], ("dt", "junk")))
    S.append(("dconv-base", "dconv", ["--base", "2050-06-15", "-i", "%d", "-f", "%F"], ("day",)))
    S.append(("dadd-mo", "dadd", ["+1mo"], P))
    S.append(("dadd-d-mo", "dadd", ["+1d", "+1mo"], P))
    S.append(("dadd-b", "dadd", ["--", "-3b"], ("d", "junk")))
    S.append(("dadd-90m", "dadd", ["+90m"], ("dt", "junk")))
    S.append(("dadd-y-S", "dadd", ["-S", "+1y"], P))
    S.append(("dadd-zone", "dadd", ["--zone", "Europe/Berlin", "+36h"], ("dt", "junk")))
    S.append(("dround-Mon", "dround", ["Mon"], P))
    S.append(("dround-nSat", "dround", ["-n", "Sat"], P))
    S.append(("dround-1", "dround", ["1"], P))
    S.append(("dround-15m", "dround", ["/15m"], ("dt", "junk")))
    S.append(("dround-S", "dround", ["-S", "Feb"], P))
    S.append(("ddiff-d", "ddiff", ["2012-03-01", "-f", "%d"], ("d", "junk")))
    S.append(("ddiff-ymd", "ddiff", ["2012-03-31", "-f", "%Y %m %d"], ("d", "junk")))
    S.append(("ddiff-HM", "ddiff", ["2012-03-01T12:00:00", "-f", "%H:%M:%S"], ("dt", "junk")))
    # named output formats have a date and a date-time variant, picked per value: plain dates and date-times in one run
    S.append(("ddiff-named-ymd", "ddiff", ["2012-01-01T00:00:00", "-f", "ymd"], P))
    S.append(("ddiff-named-ywd", "ddiff", ["2012-01-01T06:00:00", "-f", "ywd"], P))
    S.append(("ddiff-named-yd", "ddiff", ["2011-12-31", "-f", "yd"], P))
    S.append(("ddiff-default", "ddiff", ["2012-01-01T00:00:00"], P))
    S.append(("dgrep-gt", "dgrep", [">2012-01-15"], ("d", "junk")))
    S.append(("dgrep-le-dt", "dgrep", ["<=2012-06-30T23:59:59"], ("dt", "junk")))
    S.append(("dgrep-eq", "dgrep", ["=2012-02-29"], ("d", "junk")))
    S.append(("dtest-like", "dgrep", ["-v", "<2000-01-01"], ("d", "junk")))
    # several input formats that can read the same text: the first one given wins, whatever read the line before
    S.append(("dconv-E-two-formats", "dconv", ["-E", "-i", "%d/%m/%Y", "-i", "%m/%d/%Y"], ("slash",)))
    S.append(("dadd-E-two-formats", "dadd", ["-E", "-i", "%d/%m/%Y", "-i", "%m/%d/%Y", "+1d"], ("slash",)))
    S.append(("dround-E-two-formats", "dround", ["-E", "-i", "%Y-%m-%d", "-i", "%Y-%d-%m", "Mon"], ("ydm",)))
    S.append(("dconv-two-formats", "dconv", ["-i", "%d/%m/%Y", "-i", "%m/%d/%Y"], ("slash",)))
    # libc's strptime only writes the fields its format names
    S.append(("strptime-two-formats", "strptime", ["-i", "T%H:%M:%S", "-i", "D%Y-%m-%d", "-f", "%Y-%m-%d %H:%M:%S"], ("tm",)))
    # the reference value on the command line, the durations as stdin lines
    S.append(("dadd-ref-durs", "dadd", ["2012-03-01"], ("dur",)))
    S.append(("dadd-ref-dt-durs", "dadd", ["2012-01-31T12:00:00"], ("dur",)))
    S.append(("dadd-ref-durs-f", "dadd", ["-f", "%a %F", "2012-02-29"], ("dur",)))
    return S


def pool_for(kinds, rng):
    out = []
    if "d" in kinds:
        out += POOL_DATES
    if "dt" in kinds:
        out += POOL_DT
    if "junk" in kinds:
        out += POOL_JUNK
    if "day" in kinds:
        out += ["%02d" % d for d in range(1, 32)] + ["00", "32", "x"]
    if "slash" in kinds:
        return ["01/02/2000", "01/25/2000", "25/01/2000", "12/12/2012", "13/01/2000", "02/13/2000", "31/12/1999", "12/31/1999", "00/00/2000",
                "junk", "", "1/2/2000", "05/06/2007", "07/06/2005", "29/02/2012", "02/29/2012", "30/02/2012"]
    if "ydm" in kinds:
        return ["2000-01-02", "2000-25-01", "2000-01-25", "2012-12-12", "2000-13-01", "1999-12-31", "1999-31-12", "x", "", "2012-02-29", "2012-29-02"]
    if "tm" in kinds:
        return ["D2000-01-01", "T12:34:56", "D1999-12-31", "T00:00:01", "T23:59:59", "D2012-02-29", "junk", "", "D2012-13-01", "T25:00:00", "D1970-01-01"]
    if "dur" in kinds:
        # durations: plain, compound, signed, and lines that start like a duration but are none
        out += ["1d", "3d", "-2d", "+1w", "1mo", "-1y", "2b", "1d2h", "1mo1d", "90m", "36h", "+0d", "1y2mo3d", "-1mo-1d",
                "2d x", "1w ", "3mo junk", "1d1", "d", "x", "1x", "--1d", "5", "1d 1d", "1q", "-3b", "86400s", "1h30m15s",
                # numbers that do not fit: refused, and the refusal must not outlive the line
                "4294967296d", "99999999999999999999d", "-9223372036854775809s", "2147483648mo", "1d99999999999999999999h"]
        return out
    # some random ones
    for _ in range(25):
        o = rng.randrange(cal.ORD_MIN, cal.ORD_MAX - 700)
        D = cal.Day(o)
        if "d" in kinds:
            out.append(rng.choice([D.ymd, D.ywd, D.yd, D.ymcw])())
        if "dt" in kinds:
            out.append(D.ymd() + "T%02d:%02d:%02d" % (rng.randrange(24), rng.randrange(60), rng.randrange(60)))
    seen = set()
    res = []
    for v in out:
        if v not in seen:
            seen.add(v)
            res.append(v)
    return res


def single(bindir, tool, args, v):
    """answer for the value alone: (stdout, was-refused, rc, sanitizer-kind)"""
    r = run([str(bindir / tool)] + args, stdin=(v + "\n").encode(), cpu=5, wall=60)
    return r


def tool_task(task):
    bindir, name, tool, args, kinds, seed, nhist = task
    import random
    rng = random.Random(seed)
    sh = Shard()
    pool = pool_for(kinds, rng)
    ref = {}
    for v in pool:
        if v == "":
            continue
        r = single(bindir, tool, args, v)
        sh.procs += 1
        if sh.check_san(r, "san", "hist:%s:single" % name):
            continue
        ref[v] = r.out
    vals = [v for v in pool if v in ref]
    ref_args = {}
    sed = "-S" in args
    for h in range(nhist):
        kind = ["perm", "prefix-junk", "long", "dups", "reverse", "args", "crlf-mix"][h % 7]
        if kind == "perm":
            hist = rng.sample(vals, len(vals))
        elif kind == "prefix-junk":
            hist = [rng.choice(POOL_JUNK[1:]) for _ in range(rng.randrange(1, 40))] + rng.sample(vals, min(len(vals), 30))
            hist = [v for v in hist if v in ref]
        elif kind == "long":
            hist = [rng.choice(vals) for _ in range(rng.choice([257, 300, 520]))]
        elif kind == "dups":
            a, b = rng.sample(vals, 2)
            hist = [a] * 5 + [b] * 5 + [a, b] * 10
        elif kind == "reverse":
            hist = list(reversed(vals))
        elif kind == "crlf-mix":
            hist = rng.sample(vals, len(vals))
        else:
            hist = rng.sample(vals, min(len(vals), 14))
        if kind == "args" and tool == "dconv" and not sed:
            # values as command line arguments (dround: values first, then the spec)
            if tool == "dconv":
                argv = [str(bindir / tool)] + args + ["--"] + hist
            else:
                spec = [a for a in args if not a.startswith("-")][-1]
                opts = [a for a in args if a != spec]
                argv = [str(bindir / tool)] + opts + ["--"] + hist + [spec]
            hist = [v for v in hist if not v.startswith("-") and v != ""]
            if tool == "dconv":
                argv = [str(bindir / tool)] + args + ["--"] + hist
                one = lambda v: [str(bindir / tool)] + args + ["--", v]
            else:
                argv = [str(bindir / tool)] + opts + ["--"] + hist + [spec]
                one = lambda v: [str(bindir / tool)] + opts + ["--", v, spec]
            # an argument is parsed as a whole, a stdin line is searched: own single-value reference
            hist2 = []
            for v in hist:
                if v not in ref_args:
                    r1 = run(one(v), cpu=5, wall=60)
                    sh.procs += 1
                    ref_args[v] = None if (r1.sig is not None or r1.san_kind()) else r1.out
                if ref_args[v] is not None:
                    hist2.append(v)
            hist = hist2
            if tool == "dconv":
                argv = [str(bindir / tool)] + args + ["--"] + hist
            else:
                argv = [str(bindir / tool)] + opts + ["--"] + hist + [spec]
            r = run(argv, cpu=10, wall=60)
            mode = "args"
        elif kind == "crlf-mix":
            # the same values with CRLF and LF line ends mixed: the end of one line must not leak into the next
            argv = [str(bindir / tool)] + args
            r = run(argv, stdin="".join(v + rng.choice(["\n", "\r\n"]) for v in hist).encode(), cpu=10, wall=60)
            mode = "lines"
        else:
            argv = [str(bindir / tool)] + args
            r = run(argv, stdin=("\n".join(hist) + "\n").encode(), cpu=10, wall=60)
            mode = "lines"
        sh.procs += 1
        if sh.check_san(r, "san", "hist:%s:%s" % (name, mode)):
            continue
        want = b"".join((ref_args if mode == "args" else ref)[v] for v in hist)
        c = (name, kind, mode)
        if r.out == want:
            sh.ok("history", c, n=len(hist))
        else:
            # localise the first differing value
            gl = r.out.split(b"\n")
            wl = want.split(b"\n")
            k = next((i for i, (a, b) in enumerate(zip(gl, wl)) if a != b), min(len(gl), len(wl)))
            sh.bad("history", "hist:%s:%s:%s" % (name, mode, kind),
                   "%s on %d values (%s): output line %d is %r, the single-value runs give %r" %
                   (" ".join([tool] + args), len(hist), kind, k, gl[k][:80] if k < len(gl) else None,
                    wl[k][:80] if k < len(wl) else None),
                   dict(argv=argv, stdin="\n".join(hist) if mode == "lines" else "", expected=want.decode("latin-1")[:3000],
                        observed=r.out.decode("latin-1")[:3000]), cls=c)
    sh.sample(dict(option_set=name, cmd=" ".join([tool] + args), pool=len(vals), histories=nhist), cap=1)
    return sh


def zone_task(task):
    bindir, name, path, seed, nhist = task
    import random
    rng = random.Random(seed)
    sh = Shard()
    z = tzif.load(path)
    if z.ntrans < 2 or not z.valid_types:
        return sh
    drv = bindir / "zifdrv"
    # query pool: around a sample of transitions, both signs of t
    idx = sorted(set(rng.sample(range(z.ntrans), min(z.ntrans, 24)) + [0, 1, z.ntrans - 1, z.ntrans - 2]))
    ts = []
    for i in idx:
        for d in (-1, 0, 1, 3600):
            ts.append(z.trs[i] + d)
    ts += [z.trs[0] - 10, z.trs[-1] + 86400 * 1000, 0, -1, 1]
    ts = sorted(set(ts))
    # fresh-handle reference
    reqs = []
    for t in ts:
        reqs += ["O " + path, "L %d" % t]
    ans, deaths = drive(drv, reqs, sh, cpu=3, wall=60)
    for ix, r in deaths:
        sh.bad("zone-history", "zhist:fresh:died:%s" % (r.san_kind() or r.sig or r.rc), "zifdrv died on %r" %
               (reqs[ix] if ix >= 0 else "?"), dict(zone=name, stderr=r.err[-800:].decode("latin-1")))
    fresh = {}
    for k, t in enumerate(ts):
        a = ans[2 * k + 1]
        if a is not None and a.lstrip("-").isdigit():
            fresh[t] = int(a)
            off = z.offset(t)
            if off is not None and fresh[t] != t + off:
                sh.bad("zone-history", "zhist:fresh-vs-file:%s" % ("t<0" if t < 0 else "t>=0"),
                       "%s: fresh handle says %d -> %d, file says offset %+d" % (name, t, fresh[t], off),
                       dict(zone=name, query="L %d" % t))
    # local stamps to be mapped back (zif_utc_time): around the same transitions, in the skipped and in the repeated hour
    us = []
    for i in idx:
        for off in set(o for o in (z.offset(z.trs[i] - 1), z.offset(z.trs[i])) if o is not None):
            for d in (-1, 0, 1, 1800, 3599, 3600, -1800):
                us.append(z.trs[i] + off + d)
    us = sorted(set(us))
    reqs = []
    for u in us:
        reqs += ["O " + path, "U %d" % u]
    ans, deaths = drive(drv, reqs, sh, cpu=3, wall=60)
    freshu = {}
    for k, u in enumerate(us):
        a = ans[2 * k + 1] if 2 * k + 1 < len(ans) else None
        if a is not None and a.lstrip("-").isdigit():
            freshu[u] = int(a)
    for h in range(nhist):
        kind = ["random", "alternate", "descending", "neg-first", "far-first", "copy"][h % 6]
        if kind == "random":
            seq = [rng.choice(ts) for _ in range(50)]
        elif kind == "alternate":
            i = rng.choice(idx)
            a, b = z.trs[i] - 1, z.trs[i]
            far = rng.choice(ts)
            seq = [a, b, a, b, far, a, far, b] * 4
        elif kind == "descending":
            seq = sorted(rng.sample(ts, min(len(ts), 40)), reverse=True)
        elif kind == "neg-first":
            seq = [min(ts)] + rng.sample(ts, min(len(ts), 30))
        elif kind == "far-first":
            seq = [max(ts)] + rng.sample(ts, min(len(ts), 30))
        else:
            seq = rng.sample(ts, min(len(ts), 30))
        reqs = ["O " + path]
        for k, t in enumerate(seq):
            if kind == "copy" and k == 10:
                reqs.append("C")
            reqs.append("L %d" % t)
            if us and k % 3 == 1:
                # a local stamp near the instant just looked up, or anywhere: its answer must not depend on what is cached
                near = [u for u in us if abs(u - t) < 3 * 86400]
                reqs.append("U %d" % rng.choice(near if near and rng.random() < .7 else us))
        ans, deaths = drive(drv, reqs, sh, cpu=3, wall=60, preamble=["O " + path])
        for ix, r in deaths:
            sh.bad("zone-history", "zhist:%s:died:%s" % (kind, r.san_kind() or r.sig or r.rc),
                   "%s: zifdrv died on request %r after history %s" % (name, reqs[ix] if ix >= 0 else "?", reqs[max(1, ix - 4):ix]),
                   dict(zone=name, file=path, driver_requests=reqs[:ix + 1], stderr=r.err[-800:].decode("latin-1")))
        qi = 0
        for rq, a in zip(reqs, ans):
            if rq.startswith("U ") and a is not None:
                u = int(rq[2:])
                if u in freshu:
                    c = ("zone-utc", kind, "u<0" if u < 0 else "u>=0")
                    if a == str(freshu[u]):
                        sh.ok("zone-history", c)
                    else:
                        sh.bad("zone-history", "zhist:utc:%s:%s" % (kind, c[2]),
                               "%s: zif_utc_time(%d) = %s after history %s, on a fresh handle it is %d" %
                               (name, u, a, kind, freshu[u]),
                               dict(zone=name, file=path, driver_requests=reqs[:reqs.index(rq) + 1], expected=freshu[u], observed=a),
                               cls=c)
                continue
            if not rq.startswith("L ") or a is None:
                continue
            t = int(rq[2:])
            if t not in fresh or z.offset(t) is None:
                sh.skip("before-first-transition")
                continue
            c = ("zone", kind, "t<0" if t < 0 else "t>=0", "idx>=256" if z.index(t) >= 256 else "idx<256")
            if a == str(fresh[t]):
                sh.ok("zone-history", c)
            else:
                sh.bad("zone-history", "zhist:%s:%s" % (kind, c[2]),
                       "%s: zif_local_time(%d) = %s after history %s, on a fresh handle it is %d" %
                       (name, t, a, kind, fresh[t]),
                       dict(zone=name, file=path, driver_requests=reqs[:reqs.index(rq) + 1], expected=fresh[t], observed=a), cls=c)
    return sh


PREFIX_ZONES = [("EST5EDT", "EST"), ("MST7MDT", "MST"), ("Etc/GMT+10", "Etc/GMT+1"), ("Etc/GMT-14", "Etc/GMT-1"),
                ("NZ-CHAT", "NZ"), ("America/Indiana/Knox", "America/Indiana"), ("Asia/Ho_Chi_Minh", "Asia/Ho"),
                ("GMT0", "GMT"), ("GB-Eire", "GB"), ("Etc/GMT+12", "Etc/GMT"), ("America/Argentina/La_Rioja", "America/Argentina/Rio_Gallegos")]


def multizone_task(task):
    """several zones in ONE run (dzone matrices, dconv --from-zone A --zone B) versus one zone per run"""
    bindir, seed = task
    import random
    rng = random.Random(seed)
    sh = Shard()
    allnames = [n for n, _ in tzif.all_zone_files() if not n.startswith(("right/", "posix/"))]
    vals = ["2012-07-01T12:00:00", "2012-01-01T00:00:00", "1950-06-15T10:30:00", "2037-12-31T23:59:59",
            "2012-03-11T06:59:59", "2012-11-04T06:00:00"]

    def dz(zones, dates):
        r = run([str(bindir / "dzone")] + zones + dates, cpu=10, wall=60)
        sh.procs += 1
        return r
    for trial in range(24):
        if trial < len(PREFIX_ZONES) * 2:
            a, b = PREFIX_ZONES[trial % len(PREFIX_ZONES)]
            zones = [a, b] if trial < len(PREFIX_ZONES) else [b, a]
            zones = [z for z in zones if os.path.isfile("/usr/share/zoneinfo/" + z)]
            if len(zones) < 2:
                continue
            zones += rng.sample(allnames, 1)
            kind = "prefix-names"
        else:
            zones = rng.sample(allnames, rng.choice([2, 3, 5, 9]))
            kind = "random-names"
        dates = rng.sample(vals, 2)
        r = dz(zones, dates)
        if sh.check_san(r, "san", "multizone:dzone"):
            continue
        want = b""
        for d in dates:
            for z in zones:
                r1 = dz([z], [d])
                want += r1.out
        c = ("dzone-matrix", kind, "n%d" % len(zones))
        if r.out == want:
            sh.ok("history", c, n=len(zones) * len(dates))
        else:
            gl, wl = r.out.split(b"\n"), want.split(b"\n")
            k = next((i for i, (x, y) in enumerate(zip(gl, wl)) if x != y), 0)
            sh.bad("history", "hist:dzone-matrix:%s" % kind,
                   "dzone %s %s: row %d is %r, the single-zone run gives %r" %
                   (" ".join(zones), " ".join(dates), k, gl[k][:60], wl[k][:60] if k < len(wl) else None),
                   dict(argv=["dzone"] + zones + dates, expected=want.decode("latin-1"), observed=r.out.decode("latin-1")), cls=c)
        # dconv with both zones in one run versus two runs through UTC
        a, b = zones[0], zones[1]
        for v in dates:
            # (the offset is printed too: what the first zone left in the value must not show in the second's)
            r2 = run([str(bindir / "dconv"), "--from-zone", a, "--zone", b, "-f", "%FT%T%Z", v], cpu=10, wall=60)
            u = run([str(bindir / "dconv"), "--from-zone", a, "-f", "%FT%T", v], cpu=10, wall=60)
            w = run([str(bindir / "dconv"), "--zone", b, "-f", "%FT%T%Z", u.out.decode("latin-1").strip()], cpu=10, wall=60)
            sh.procs += 3
            if sh.check_san(r2, "san", "multizone:dconv"):
                continue
            c = ("dconv-zone-pair", kind)
            if r2.out == w.out:
                sh.ok("history", c)
            else:
                sh.bad("history", "hist:dconv-zone-pair:%s" % kind,
                       "dconv --from-zone %s --zone %s %s -> %r, via UTC in two runs: %r" % (a, b, v, r2.out[:40], w.out[:40]),
                       dict(argv=["dconv", "--from-zone", a, "--zone", b, "-f", "%FT%T%Z", v], expected=w.out.decode("latin-1").strip()), cls=c)
    return sh


def _dispatch(t):
    return tool_task(t[1]) if t[0] == "tool" else multizone_task(t[1]) if t[0] == "mz" else zone_task(t[1])


def main(tier, seed):
    ctx = core.Ctx("C13", tier, seed)
    bindir = ctx.bin("san")
    rng = ctx.rng
    quick = tier == "quick"
    tasks = []
    for i, (name, tool, args, kinds) in enumerate(option_sets()):
        tasks.append(("tool", (bindir, name, tool, args, kinds, seed * 7919 + i, 12 if quick else 120)))
    # the same history monitor on the build whose automatic variables start out with a hostile pattern instead of
    # whatever the previous value left on the stack (-ftrivial-auto-var-init=pattern)
    patdir = ctx.bin("pat")
    for i, (name, tool, args, kinds) in enumerate(option_sets()):
        if quick and i % 3 != seed % 3:
            continue
        tasks.append(("tool", (patdir, name, tool, args, kinds, seed * 7919 + 500 + i, 8 if quick else 60)))
    allz = tzif.all_zone_files()
    byname = dict(allz)
    zs = [(n, byname[n]) for n in ("Asia/Hebron", "Asia/Jayapura", "Europe/Berlin", "America/St_Johns", "Asia/Gaza",
                                   "Africa/Monrovia", "Pacific/Apia") if n in byname]
    zs += rng.sample(allz, 40 if quick else 600)
    for i, (n, p) in enumerate(zs):
        tasks.append(("zone", (bindir, n, p, seed * 104729 + i, 12 if quick else 60)))
    for k in range(4 if quick else 40):
        tasks.append(("mz", (bindir, seed * 131 + k)))
    for sh in core.pmap(_dispatch, tasks):
        ctx.merge(sh)
    nos = len(option_sets())
    ctx.rule = ("events = one value's output inside a multi-value run compared byte-for-byte with its single-value run: "
                "%d tool/option sets (dconv, dadd, dround, ddiff, dgrep; plain, -f, -S, --zone, --from-zone, -i/--base), "
                "pool of ~70-100 values each (all calendars, fix-up dates, DST-edge date-times, unparsable lines), "
                "histories: permutations, junk prefixes, >255 and >512 lines, duplicates, reversal, command-line "
                "arguments, mixed CRLF/LF line ends; dadd with the reference on the command line and durations (valid, compound, "
                "valid-prefix-plus-junk) as stdin lines; zones: %d zone images x histories (random, alternating around a boundary, descending, "
                "negative-first, far-future-first, after zif_copy) of zif_local_time and zif_utc_time calls (local stamps in skipped and repeated hours) against the "
                "fresh-handle answers; several zones in one run (dzone matrices and dconv --from-zone/--zone pairs, incl. "
                "zone names that are prefixes of each other) against one-zone-per-run; compared with the "
                "fresh-handle answer and the zone-file oracle; the tool histories are repeated on the 'pat' build (automatic "
                "variables pre-filled with a pattern). distinct_nontrivial = distinct (option set | zone "
                "history kind, history class, mode)" % (nos, len(zs)))
    ctx.assumptions = ["dseq, dsort and ddiff without a fixed reference are out of scope by the statement",
                       "dgrep expressions are kept to single comparisons here (C17 judges expressions)"]
    ctx.min_evals = 20000
    return ctx.finish()


if __name__ == "__main__":
    sys.exit(main("quick", 1))
