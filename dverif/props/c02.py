"""C02 - conversions round-trip; formatting is representation-independent.

(a) chains: the tool's OWN output in calendar A is fed back and converted to
    B and back to ymd, for all ordered pairs of calendars;
(b) every date specifier, alone and preceded by every other specifier, printed
    from every representation a tool can hand to the formatter (parsed
    ymd/ywd/yd/ymcw/day numbers, the result of dadd, the day counts dseq
    iterates over) must be the text the calendar oracle defines for that day;
(c) Hijri: every day of the table range against data/ummulqura.tab.
"""
import sys
from datetime import date

from .. import core
from ..core import Shard, run, align_lines, res_replay
from ..oracle import cal, hijri
from . import c01

CALS = ["ymd", "ywd", "yd", "ymcw", "ldn", "jdn", "mdn"]
IARGS = {"ymd": [], "ywd": [], "yd": [], "ymcw": [], "ldn": ["-i", "ldn"],
         "jdn": ["-i", "jdn"], "mdn": ["-i", "mdn"]}
SPECS = cal.DATE_SPECS + ["%db"]


def _dconv(bindir, args, lines, sh):
    r = run([str(bindir / "dconv")] + args, stdin=("\n".join(lines) + "\n").encode(),
            cpu=120, wall=600)
    sh.procs += 1
    outs, crash = align_lines(lines, r)
    if r.sig is None:
        sh.check_san(r, "san", "san:dconv:%s" % "_".join(a for a in args if not a.startswith("%")))
    return outs, crash, r


def chain_task(task):
    bindir, A, ords = task
    sh = Shard()
    days = [cal.Day(o) for o in ords]
    src = [d.ymd() for d in days]
    outA, crash, r = _dconv(bindir, ["-f", A], src, sh)
    if crash is not None:
        sh.bad("chain", "chain:%s:err=died:%s" % (A, r.san_kind() or r.sig or r.rc),
               "dconv -f %s died" % A, res_replay(r))
        return sh
    for B in CALS:
        if B == A:
            continue
        idx = [i for i, t in enumerate(outA) if t is not None]
        la = [outA[i] for i in idx]
        outB, crash, r = _dconv(bindir, IARGS[A] + ["-f", B], la, sh)
        if crash is not None:
            sh.bad("chain", "chain:%s>%s:err=died:%s" % (A, B, r.san_kind() or r.sig or r.rc),
                   "dconv %s -f %s died" % (IARGS[A], B), res_replay(r))
            continue
        idx2 = [i for i, t in zip(idx, outB) if t is not None]
        lb = [t for t in outB if t is not None]
        back, crash, r = _dconv(bindir, IARGS[B] + ["-f", "%F"], lb, sh)
        if crash is not None:
            sh.bad("chain", "chain:%s>%s>ymd:err=died:%s" % (A, B, r.san_kind() or r.sig or r.rc),
                   "dconv died", res_replay(r))
            continue
        got = dict(zip(idx2, back))
        mid = dict(zip(idx, outB))
        for i, d in enumerate(days):
            g = got.get(i)
            if g == src[i]:
                sh.ok("chain", (A, B, d.cls()))
            else:
                stage = "1" if outA[i] is None else "2" if mid.get(i) is None else "3"
                sig = "chain:%s>%s:err=%s:stage%s:cls=%s" % (A, B, c01.err_shape(g, None), stage, c01.cls3(d))
                sh.bad("chain", sig,
                       "%s -> %s %r -> %s %r -> ymd %r" % (src[i], A, outA[i], B, mid.get(i), g),
                       dict(day=src[i], calA=A, textA=outA[i], calB=B, textB=mid.get(i), back=g,
                            cmd="dconv -f %s | dconv %s -f %s | dconv %s -f %%F" %
                            (A, " ".join(IARGS[A]), B, " ".join(IARGS[B]))),
                       cls=(A, B, d.cls()))
    sh.sample(dict(chain="ymd>%s>*>ymd" % A, first=src[0], inA=outA[0]), cap=1)
    return sh


# --- representation independence ------------------------------------------
def holder_cmd(bindir, holder, fmt):
    """-> (argv, line producer) for a tool that holds the day in `holder` when printing"""
    kind, rep = holder.split(":")
    if rep == "bizda":
        # a business-day date (weekend days are written as the Friday before, strf_task leaves them out)
        from ..oracle import dur as _dur
        mk, ia = (lambda d: _dur.bizda_text(d.o)), []
    else:
        mk = c01.SOURCES[rep][0]
        ia = c01.SOURCES[rep][1]
    if kind == "dconv":
        return [str(bindir / "dconv")] + ia + ["-f", fmt], mk
    if kind == "dadd":
        return [str(bindir / "dadd")] + ia + ["-f", fmt, "0d"], mk
    if kind == "dadd7":
        # +7d -7d: the value went through the calendar's own add code
        return [str(bindir / "dadd")] + ia + ["-f", fmt, "+7d", "-7d"], mk
    if kind in ("droundMon", "droundThu"):
        # the value the formatter gets was produced by dround (next Mon/Thu on or after)
        return [str(bindir / "dround")] + ia + ["-f", fmt, kind[6:]], mk
    raise KeyError(holder)


def holder_shift(holder, o):
    """ordinal of the day the holder's tool is expected to print for input day o"""
    kind = holder.split(":")[0]
    if kind == "droundMon":
        return o + (7 - (o - 1) % 7) % 7
    if kind == "droundThu":
        return o + (3 - (o - 1) % 7) % 7
    return o


HOLDERS = ["dconv:ymd", "dconv:ywd", "dconv:yd", "dconv:ymcw", "dconv:ldn", "dconv:mdn",
           "dadd:ymd", "dadd:ywd", "dadd:yd", "dadd:ymcw", "dadd:ldn",
           "dadd7:ywd", "dadd7:ymcw", "dadd7:yd",
           "droundMon:ymd", "droundMon:ywd", "droundMon:ymcw", "droundThu:ywd", "droundThu:yd",
           "dconv:bizda", "dadd:bizda"]


def strf_task(task):
    """(bindir, holder, [specs], ordinals) -> Shard; format = specs joined by '|'"""
    bindir, holder, specs, ords = task
    sh = Shard()
    fmt = "|".join(specs)
    argv, mk = holder_cmd(bindir, holder, fmt)
    if holder.endswith(":bizda"):
        ords = [o for o in ords if (o - 1) % 7 < 5]
    days = [cal.Day(o) for o in ords]
    lines = [mk(d) for d in days]
    r = run(argv, stdin=("\n".join(lines) + "\n").encode(), cpu=120, wall=600)
    sh.procs += 1
    outs, crash = align_lines(lines, r)
    if r.sig is None:
        sh.check_san(r, "san", "strf:%s:san" % holder)
    pred = lambda i: specs[i - 1] if i else "-"
    for k, got in enumerate(outs):
        d = days[k]
        t = holder_shift(holder, d.o)
        if t != d.o:
            if t > cal.ORD_MAX:
                continue
            d = cal.Day(t)
        if got is None:
            sh.bad("strf", "strf:%s:refused:cls=%s" % (holder, c01.cls3(d)),
                   "%s refuses %r" % (argv[0].split("/")[-1], lines[k]),
                   dict(argv=argv, input=lines[k]), cls=(holder, "refused"))
            continue
        fields = got.split("|")
        if len(fields) != len(specs):
            sh.bad("strf", "strf:%s:fieldcount" % holder, "output %r for %r" % (got, lines[k]),
                   dict(argv=argv, input=lines[k], observed=got))
            continue
        for i, (sp, f) in enumerate(zip(specs, fields)):
            exp = d.spec(sp)
            if exp is None:
                sh.skip("specifier-undefined-for-day")
                continue
            if f in exp:
                sh.ok("strf", (holder, sp, pred(i) if len(specs) <= 2 else "*", d.cls()))
            else:
                after = pred(i) if len(specs) <= 2 else ("*" if i else "-")
                sig = "strf:%s:spec=%s:after=%s:err=%s:cls=%s" % (
                    holder, sp, after, c01.err_shape(f, exp), c01.cls3(d))
                sh.bad("strf", sig,
                       "day %s held as %s: %s printed %r for %s (format %r), calendar says %s" %
                       (d.ymd(), holder, argv[0].split("/")[-1], f, sp, fmt, "|".join(exp)),
                       dict(argv=argv, input=lines[k], day=d.ymd(), expected=list(exp),
                            observed=f, full_output=got), cls=(holder, sp, after, d.cls()))
    if crash is not None:
        w = lines[crash] if 0 <= crash < len(lines) else "?"
        kind = r.san_kind() or ("cpu" if r.cpu_exceeded else "signal%s" % r.sig if r.sig else "rc%s" % r.rc)
        r.stdin = (w + "\n").encode()
        sh.bad("strf", "strf:%s:died:%s" % (holder, kind), "died at %r (format %r)" % (w, fmt),
               res_replay(r))
    if outs and outs[0] is not None:
        sh.sample(dict(cmd=core.shq(argv), input=lines[0], output=outs[0]), cap=1)
    return sh


def dseq_task(task):
    """dseq iterates day counts and hands them to the formatter"""
    bindir, specs, o1, o2 = task
    sh = Shard()
    fmt = "|".join(specs)
    d1, d2 = cal.Day(o1), cal.Day(o2)
    argv = [str(bindir / "dseq"), d1.ymd(), d2.ymd(), "-f", fmt]
    r = run(argv, cpu=120, wall=600)
    sh.procs += 1
    outl = r.out.decode("latin-1").split("\n")
    if outl and outl[-1] == "":
        outl.pop()
    n = o2 - o1 + 1
    if r.sig is None:
        sh.check_san(r, "san", "strf:dseq:san")
    if len(outl) != n or r.rc != 0:
        kind = r.san_kind() or ("rc=%s sig=%s" % (r.rc, r.sig))
        sh.bad("strf", "strf:dseq:count:%s:cls=%s" % (kind, c01.cls3(d2)),
               "dseq %s %s printed %d lines, expected %d" % (d1.ymd(), d2.ymd(), len(outl), n),
               res_replay(r))
        n = min(n, len(outl))
    for k in range(n):
        d = cal.Day(o1 + k)
        fields = outl[k].split("|")
        if len(fields) != len(specs):
            sh.bad("strf", "strf:dseq:fieldcount", "line %r" % outl[k], dict(argv=argv))
            continue
        for i, (sp, f) in enumerate(zip(specs, fields)):
            exp = d.spec(sp)
            if exp is None:
                continue
            if f in exp:
                sh.ok("strf", ("dseq:daisy", sp, "*", d.cls()))
            else:
                sig = "strf:dseq:daisy:spec=%s:after=%s:err=%s:cls=%s" % (
                    sp, "*" if i else "-", c01.err_shape(f, exp), c01.cls3(d))
                sh.bad("strf", sig, "dseq element %s: %s printed %r, calendar says %s (format %r)" %
                       (d.ymd(), sp, f, "|".join(exp), fmt),
                       dict(argv=argv, day=d.ymd(), expected=list(exp), observed=f),
                       cls=("dseq:daisy", sp, d.cls()))
    return sh


def hijri_task(task):
    bindir, ords = task
    sh = Shard()
    H = hijri.Hijri()
    days = [cal.Day(o) for o in ords]
    lines = [d.ymd() for d in days]
    outs, crash, r = _dconv(bindir, ["-f", "hijri"], lines, sh)
    prev = None
    for k, got in enumerate(outs):
        d = days[k]
        exp = H.text(d.ldn)
        y, m, dd = H.of_ldn(d.ldn)
        c = "hijri:" + ("bom" if dd == 1 else "eom" if dd >= 29 else "mid") + (":newyear" if m == 1 and dd == 1 else "")
        if got == exp:
            sh.ok("hijri", c)
        else:
            sh.bad("hijri", "hijri:fwd:err=%s:%s" % (c01.err_shape(got, None), "bom" if dd == 1 else "other"),
                   "dconv %s -f hijri printed %r, table says %s" % (lines[k], got, exp),
                   dict(argv=["dconv", "-f", "hijri", lines[k]], expected=exp, observed=got), cls=c)
    if crash is not None:
        sh.bad("hijri", "hijri:died:%s" % (r.san_kind() or r.sig or r.rc), "dconv -f hijri died", res_replay(r))
    if outs:
        sh.sample(dict(cmd="dconv -f hijri", input=lines[0], output=outs[0]), cap=1)
    # and back: -i hijri reads command-line arguments (not stdin lines); every day of the table has to come back
    hx = [H.text(d.ldn) for d in days]
    for i in range(0, len(hx), 400):
        argv = [str(bindir / "dconv"), "-i", "hijri", "-f", "ymd", "--"] + hx[i:i + 400]
        r2 = run(argv, cpu=30, wall=120)
        sh.procs += 1
        if sh.check_san(r2, "san", "hijri:back:san"):
            continue
        o2 = r2.out.decode("latin-1").split("\n")[:-1]
        for k in range(i, min(i + 400, len(hx))):
            got = o2[k - i] if k - i < len(o2) else None
            y, m, dd = H.of_ldn(days[k].ldn)
            c = "hijri-back:" + ("bom" if dd == 1 else "eom" if dd >= 29 else "mid") + (":lastyear" if y == 1450 else ":firstyear" if y == 1318 else "")
            if got == lines[k]:
                sh.ok("hijri", c)
            else:
                sh.bad("hijri", "hijri:back:err=%s:%s" % (c01.err_shape(got, None), "lastyear" if y == 1450 else "firstyear" if y == 1318 else "other"),
                       "dconv -i hijri %s -f ymd printed %r, table says %s" % (hx[k], got, lines[k]),
                       dict(argv=["dconv", "-i", "hijri", "-f", "ymd", hx[k]], expected=lines[k], observed=got), cls=c)
    return sh


def main(tier, seed):
    ctx = core.Ctx("C02", tier, seed)
    bindir = ctx.bin("san")
    rng = ctx.rng
    alld = range(cal.ORD_MIN, cal.ORD_MAX + 1)
    bnd = cal.boundary_ordinals()
    quick = tier == "quick"
    # (a) chains
    chain_days = sorted(set(rng.sample(bnd, 12000 if quick else len(bnd))) |
                        set(rng.sample(alld, 8000 if quick else 200000)))
    tasks = []
    for A in CALS:
        for ch in c01.chunks(chain_days, 5000 if quick else 25000):
            tasks.append(("chain", (bindir, A, ch)))
    # (b1) all specifiers in random orders, every holder, many days
    big_days = sorted(set(rng.sample(bnd, 20000 if quick else len(bnd))) |
                      set(rng.sample(alld, 10000 if quick else 300000)))
    for h in HOLDERS:
        for rep in range(2 if quick else 6):
            perm = SPECS[:]
            rng.shuffle(perm)
            for ch in c01.chunks(big_days, 8000 if quick else 40000):
                tasks.append(("strf", (bindir, h, perm, ch)))
    # (b2) every specifier alone and after every other one (ordered pairs)
    pair_days = sorted(rng.sample(bnd, 700 if quick else 6000) + rng.sample(alld, 300 if quick else 3000))
    for h in HOLDERS:
        for s1 in SPECS:
            tasks.append(("strf", (bindir, h, [s1], pair_days)))
            for s2 in SPECS:
                if s1 != s2:
                    tasks.append(("strf", (bindir, h, [s1, s2], pair_days)))
    # (b3) dseq hands day counts to the formatter: whole domain in quick too
    step = 57000
    for o in range(cal.ORD_MIN, cal.ORD_MAX + 1, step):
        perm = SPECS[:]
        rng.shuffle(perm)
        tasks.append(("dseq", (bindir, perm, o, min(o + step - 1, cal.ORD_MAX))))
    # (c) hijri
    H = hijri.Hijri()
    hd = list(H.ordinals())
    for ch in c01.chunks(hd, 6000):
        tasks.append(("hijri", (bindir, ch)))

    def weight(t):
        k, a = t
        return -(len(a[2]) * 14 if k == "chain" else len(a[3]) * len(a[2]) if k == "strf" else 57000 * 25 if k == "dseq" else len(a[1]))
    tasks.sort(key=weight)
    for sh in core.pmap(_dispatch, tasks):
        ctx.merge(sh)
    ctx.rule = ("events: (a) round-trip chains ymd>A>B>ymd through the tool's own output for all 42 ordered "
                "pairs of {ymd,ywd,yd,ymcw,ldn,jdn,mdn} on %d days; (b) (holder, specifier, preceding "
                "specifier, day) prints judged against the calendar oracle: %d holders x all 25 specifiers "
                "in random orders on %d days, all 600 ordered specifier pairs + 25 singles on %d days, dseq "
                "(day-count holder) over all 911,280 days; (c) every day of the Umm-al-Qura table (%d). "
                "distinct_nontrivial = distinct (holder|chain pair, specifier, predecessor, day-class)"
                % (len(chain_days), len(HOLDERS), len(big_days), len(pair_days), len(hd)))
    ctx.cov["holders"] = HOLDERS + ["dseq:daisy"]
    ctx.cov["hijri_days"] = len(hd)
    ctx.assumptions = ["calendar oracle as C01", "data/ummulqura.tab is the Hijri definition",
                       "conversion TO bizda is a documented stub and out of the round-trip claim",
                       "Hijri -> Gregorian goes through command-line arguments (-i hijri does not read stdin lines)"]
    ctx.min_evals = 500000
    return ctx.finish()


def _dispatch(t):
    k, a = t
    return {"chain": chain_task, "strf": strf_task, "dseq": dseq_task, "hijri": hijri_task}[k](a)


if __name__ == "__main__":
    sys.exit(main("quick", 1))
