"""C03 - adding days or weeks is exact in every calendar"""
import sys

from .. import core, addsweep
from ..oracle import cal, dur

CALS = ["ymd", "ywd", "yd", "ymcw", "bizda", "ldn", "mdn", "jdn", "epoch"]
DAYS_N = [1, 2, 6, 7, 8, 27, 28, 29, 30, 31, 32, 59, 60, 365, 366, 367, 1461, 36524, 36525, 146097]
WEEKS_N = [1, 4, 5, 52, 53, 5218]


def mkpairs(K, ords, delta, ctx):
    out = []
    for o in ords:
        t = o + delta
        if not dur.in_range(t):
            ctx.skip("result-out-of-range")
            continue
        if K == "epoch" and (max(o, t) > cal.ORD_MAX - 606 or o == cal.ORD_UNIX):
            # finding F1 of C01 (last 606 days); 0 on a stdin line is taken for no stamp
            ctx.skip("epoch-last606")
            continue
        if K == "bizda" and not (dur.is_bday(o) and dur.is_bday(t)):
            ctx.skip("bizda-weekend-endpoint")
            continue
        out.append((o, t))
    return out


def main(tier, seed):
    ctx = core.Ctx("C03", tier, seed)
    bindir = ctx.bin("san")
    rng = ctx.rng
    quick = tier == "quick"
    alld = range(cal.ORD_MIN, cal.ORD_MAX + 1)
    bnd = cal.boundary_ordinals()
    # (thorough is bounded by memory: every task carries its list of (start, expected) pairs)
    base = sorted(set(rng.sample(bnd, 14000 if quick else 45000)) |
                  set(rng.sample(alld, 6000 if quick else 30000)))
    tasks = []
    for K in CALS:
        for n in DAYS_N:
            for s in (1, -1):
                tasks.append((bindir, "C03", K, ["%+dd" % (s * n)], mkpairs(K, base, s * n, ctx), "d"))
        for n in WEEKS_N:
            for s in (1, -1):
                tasks.append((bindir, "C03", K, ["%+dw" % (s * n)], mkpairs(K, base, 7 * s * n, ctx), "w"))
        # random counts, any size that keeps the result in range
        small = rng.sample(base, 2500 if quick else 8000)
        for _ in range(60 if quick else 400):
            n = rng.choice([1, -1]) * int(10 ** rng.uniform(0, 5.95))
            tasks.append((bindir, "C03", K, ["%+dd" % n], mkpairs(K, small, n, ctx), "d-rand"))
        # laws: (d+n)-n = d ; (d+a)+b = d+(a+b)
        for _ in range(25 if quick else 200):
            n = rng.choice([1, -1]) * int(10 ** rng.uniform(0, 5.5))
            pr = [(o, o) for o, t in mkpairs(K, small, n, ctx)]
            tasks.append((bindir, "C03", K, ["%+dd" % n, "%+dd" % -n], pr, "law-inverse"))
            a = rng.choice([1, -1]) * int(10 ** rng.uniform(0, 4.5))
            b = rng.choice([1, -1]) * int(10 ** rng.uniform(0, 4.5))
            pr = [(o, t) for o, t in mkpairs(K, small, a + b, ctx) if dur.in_range(o + a)
                  and (K != "bizda" or dur.is_bday(o + a))]
            tasks.append((bindir, "C03", K, ["%+dd" % a, "%+dd" % b], pr, "law-compose"))
            w = rng.choice([1, -1]) * rng.randrange(1, 3000)
            pr = [(o, o) for o, t in mkpairs(K, small, 7 * w, ctx)]
            tasks.append((bindir, "C03", K, ["%+dw" % w, "%+dw" % -w], pr, "law-inverse-w"))
    # the same additions with the result printed in ANOTHER calendar
    cross = []
    XO = {"ymd": ["ywd", "yd", "ymcw"], "ywd": ["ymd", "yd"], "yd": ["ymd", "ywd"], "ymcw": ["ymd", "ywd"],
          "bizda": ["ymd"], "ldn": ["ymd", "ywd"], "mdn": ["ymd"], "jdn": ["ymd", "yd"], "epoch": [None]}
    for i, t in enumerate(tasks):
        outs = XO[t[2]]
        if outs[i % len(outs)] is not None:
            cross.append(t + (outs[i % len(outs)],))
    tasks += cross
    tasks = [t for t in tasks if t[4]]
    tasks.sort(key=lambda t: -len(t[4]))
    for sh in core.pmap(addsweep.add_task, tasks):
        ctx.merge(sh)
    ctx.rule = ("events = (calendar, start day, signed day/week count) with the dadd output compared to "
                "date.fromordinal(ord+N) rendered in the same calendar; calendars %s; %d boundary+random "
                "start days x N in +-%s days, +-%s weeks, plus random |N| <= 900000, plus the laws "
                "(d+n)-n=d and (d+a)+b=d+(a+b) inside one invocation. distinct_nontrivial = distinct "
                "(calendar, unit, sign, carry class, start weekday)" % (CALS, len(base), DAYS_N, WEEKS_N))
    ctx.assumptions = ["bizda + N calendar days is in domain only when start and target are Mon-Fri days",
                       "results outside 1601..4095 are not generated"]
    ctx.min_evals = 200000
    return ctx.finish()


if __name__ == "__main__":
    sys.exit(main("quick", 1))
