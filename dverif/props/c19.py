"""C19 - zone files and zone maps load safely and look up faithfully

Fault enumeration: every truncation length and a fixed fault set per header
field / type index / version byte of seed TZif files and compiled zone maps.
The images are exact-size ASan-tracked heap blocks (mmap shim), so a read one
byte past a truncated image is a report; hooks H1/H3 catch intra-object
over-indexing ASan cannot see.
"""
import os
import shutil
import struct
import sys
import tempfile

from .. import core
from ..core import Shard, run, drive, res_replay, esc
from ..oracle import tzif, cal

QUERY_TS = [-(1 << 40), -2208988800, -1, 0, 1, 86400 * 365 * 30, 1 << 31, 1 << 40]


def zif_queries(z_or_none):
    ts = list(QUERY_TS)
    if z_or_none is not None and z_or_none.ntrans:
        tr = z_or_none.trs
        for i in (0, len(tr) // 2, len(tr) - 1):
            ts += [tr[i] - 1, tr[i], tr[i] + 1]
    reqs = []
    for t in ts:
        reqs += ["L %d" % t, "U %d" % t, "R %d" % t]
    reqs += ["N", "T 0", "T 1", "T 255", "T 256", "T -1", "T 100000", "C", "L 0", "X"]
    return reqs


def zif_fault_task(task):
    """one family of faulted images of one seed file -> Shard"""
    bindir, name, data, kind, items, tmpd = task
    sh = Shard()
    drv = bindir / "zifdrv"
    d = tempfile.mkdtemp(prefix="zf-", dir=tmpd)
    try:
        for label, img in items:
            p = os.path.join(d, "img")
            with open(p, "wb") as fp:
                fp.write(img)
            try:
                z = tzif.TZif(img)
                if not (z.valid_types and z.sorted):
                    z = None
            except Exception:
                z = None
            reqs = ["O " + p] + zif_queries(z)
            ans, deaths = drive(drv, reqs, sh, cpu=3, wall=60, max_restarts=3, preamble=["O " + p])
            cls = (name.split("/")[0] if name.startswith("synthetic") else "real", kind)
            if deaths:
                for ix, r in deaths:
                    k = r.san_kind() or ("cpu-limit" if r.cpu_exceeded else "signal%s" % r.sig if r.sig else "rc%s" % r.rc)
                    if r.timed_out and not r.cpu_exceeded:
                        sh.extra["inconclusive_wall_timeouts"] += 1
                        continue
                    q = reqs[ix] if 0 <= ix < len(reqs) else "?"
                    sh.bad("zif-safety", "zif:%s:%s:%s" % (kind, k, q.split()[0]),
                           "%s [%s %s]: zifdrv %s on request %r" % (name, kind, label, k, q),
                           dict(argv=["zifdrv"], files={"img": img.hex()}, driver_requests=["O {dir}/img"] + reqs[1:ix + 1],
                                stderr=r.err[-1500:].decode("latin-1")), cls=cls + ("died",))
                continue
            opened = ans[0] is not None and ans[0].startswith("OK")
            if not opened:
                sh.ok("zif-safety", cls + ("rejected",))
                continue
            # accepted: when the oracle can read the same image, the answers must be faithful to it
            if z is None:
                sh.ok("zif-safety", cls + ("accepted-unjudged",))
                continue
            bad = None
            for rq, a in zip(reqs[1:], ans[1:]):
                if a is None or not rq.startswith("L "):
                    continue
                t = int(rq[2:])
                off = z.offset(t)
                if off is None:
                    continue
                if a != str(t + off):
                    bad = (rq, a, t + off)
                    break
            if bad:
                sh.bad("zif-faithful", "zif:%s:unfaithful" % kind,
                       "%s [%s %s]: accepted, but %s -> %s where the image's own table says %d" %
                       (name, kind, label, bad[0], bad[1], bad[2]),
                       dict(files={"img": img.hex()}, driver_requests=["O {dir}/img", bad[0]], expected=bad[2],
                            observed=bad[1]), cls=cls + ("accepted",))
            else:
                sh.ok("zif-faithful", cls + ("accepted+faithful",))
    finally:
        shutil.rmtree(d, ignore_errors=True)
    return sh


def header_fields(data):
    """offsets of the six 4-byte count fields of both headers"""
    out = [(0, 20 + 4 * i) for i in range(6)]
    try:
        ver, isutc, isstd, leap, time, typ, char = tzif._hdr(data, 0)
        if ver != b"\0":
            off2 = 44 + time * 4 + time + typ * 6 + char + leap * 8 + isstd + isutc
            if off2 + 44 <= len(data):
                out += [(off2, off2 + 20 + 4 * i) for i in range(6)]
    except Exception:
        pass
    return out


def zif_faults(name, data, rng, quick):
    """-> list of (kind, [(label, image)])"""
    fams = []
    n = len(data)
    step = 1 if (n <= 1400 or not quick) else 3
    fams.append(("truncate", [("len=%d" % k, data[:k]) for k in list(range(0, min(n, 120))) + list(range(120, n, step)) + [n]]))
    hf = []
    for base, off in header_fields(data):
        true = struct.unpack(">I", data[off:off + 4])[0]
        for v in (0, 1, max(true - 1, 0), true + 1, 255, 256, 65535, 2 ** 31 - 1, 2 ** 32 - 1):
            if v == true:
                continue
            hf.append(("hdr@%d=%d" % (off, v), data[:off] + struct.pack(">I", v) + data[off + 4:]))
    fams.append(("header-count", hf))
    # type index bytes of the block the tool reads
    ty = []
    try:
        ver, isutc, isstd, leap, time, typ, char = tzif._hdr(data, 0)
        if ver != b"\0":
            off2 = 44 + time * 4 + time + typ * 6 + char + leap * 8 + isstd + isutc
            ver2, isutc2, isstd2, leap2, time2, typ2, char2 = tzif._hdr(data, off2)
            tys_at = off2 + 44 + time2 * 8
            cnt, nty = time2, typ2
        else:
            tys_at = 44 + time * 4
            cnt, nty = time, typ
        idxs = range(cnt) if cnt <= 40 else sorted(rng.sample(range(cnt), 38) + [0, cnt - 1])
        for i in idxs:
            for v in (nty, 255):
                ty.append(("tys[%d]=%d" % (i, v), data[:tys_at + i] + bytes([v]) + data[tys_at + i + 1:]))
    except Exception:
        pass
    fams.append(("type-index", ty))
    vb = [("version=%r" % v, data[:4] + v + data[5:]) for v in (b"\0", b"1", b"2", b"3", b"4", b"\xff")]
    try:
        ver, isutc, isstd, leap, time, typ, char = tzif._hdr(data, 0)
        off2 = 44 + time * 4 + time + typ * 6 + char + leap * 8 + isstd + isutc
        vb.append(("magic2", data[:off2] + b"TZiX" + data[off2 + 4:]))
        for v2 in (b"\0", b"1", b"4", b"X", b"\xff"):
            vb.append(("version2=%s" % (v2.decode("latin-1") if v2.isalnum() else v2.hex()), data[:off2 + 4] + v2 + data[off2 + 5:]))
    except Exception:
        pass
    fams.append(("version-magic", vb))
    return fams


NOT_TZIF = [("empty", b""), ("20-bytes", b"TZif2" + b"\0" * 15), ("21-bytes", b"TZif2" + b"\0" * 16),
            ("44-zero", b"TZif2" + b"\0" * 39), ("text", b"# not a zone file\nEurope/Berlin\n" * 4),
            ("elf", b"\x7fELF\x02\x01\x01" + b"\0" * 57), ("magic-only", b"TZif"),
            ("v2-nohdr2", b"TZif2" + b"\0" * 15 + struct.pack(">6I", 0, 0, 0, 0, 1, 4) + struct.pack(">iBB", 0, 0, 0) + b"UTC\0")]


# ---- zone maps ------------------------------------------------------------------
def make_sources(rng, zones, quick):
    """-> [(label, [(key, zone)])] with keys sorted ascending, unique"""
    out = []
    az = "ABCDEFGHIJKLMNOPQRSTUVWXYZ"

    def keys(n, lens):
        s = set()
        while len(s) < n:
            s.add("".join(rng.choice(az) for _ in range(rng.choice(lens))))
        return sorted(s)
    out.append(("1key", [("AAA", zones[0])]))
    out.append(("2keys", [("AAA", zones[0]), ("AAB", zones[1])]))
    out.append(("prefix-keys", [(k, rng.choice(zones[:50])) for k in sorted({"A", "AB", "ABC", "ABCD", "ABCDE", "ABD", "B", "BA", "ABCDEFGH", "ABCDEFGHI"})]))
    # the longer name is pooled first, the shorter one that is its prefix afterwards
    pz = ["Asia/Ho_Chi_Minh", "Asia/Ho", "America/Indiana/Knox", "America/Indiana", "America/Indianapolis", "Asia/Hong_Kong",
          "Etc/GMT-10", "Etc/GMT-1", "Etc/GMT"]
    out.append(("prefix-zones", [(k, pz[i % len(pz)]) for i, k in enumerate(keys(24, [3]))]))
    out.append(("iata-like", [(k, rng.choice(zones)) for k in keys(300 if quick else 3000, [3])]))
    out.append(("icao-like", [(k, rng.choice(zones)) for k in keys(300 if quick else 3000, [4])]))
    out.append(("mixed-len", [(k, rng.choice(zones)) for k in keys(200, [1, 2, 3, 4, 5, 7, 8, 9, 12])]))
    # long zone names: the name pool of the compiler grows in steps
    out.append(("long-zones", [(k, "Zone/" + "x" * n + "/%d" % n) for k, n in
                               zip(keys(14, [3]), [40, 55, 56, 57, 58, 59, 60, 61, 64, 100, 120, 128, 255, 400])]))
    for i in range(4 if quick else 60):
        out.append(("rand%d" % i, [(k, rng.choice(zones)) for k in keys(rng.choice([3, 7, 20, 64, 65, 100]), [2, 3, 4])]))
    if not quick:
        out.append(("10k", [(k, rng.choice(zones)) for k in keys(10000, [4, 5])]))
        out.append(("bigpool", [(k, "Zone/" + "x" * 60 + "%05d" % i) for i, k in enumerate(keys(800, [4]))]))
    # more distinct zone names than the 64 KiB name pool (16-bit offsets) can hold: what does not fit must be
    # reported, what is in must be right
    out.append(("overfull", [(k, "Zone/" + "x" * 60 + "%05d" % i) for i, k in enumerate(keys(1100, [4]))]))
    return out


def absent_keys(present, rng):
    s = set(present)
    out = set()
    for k in present[:: max(1, len(present) // 60)]:
        out.update([k[:-1], k + "A", k + "\x01", k[:-1] + chr(min(126, ord(k[-1]) + 1)), k[:-1] + chr(max(33, ord(k[-1]) - 1)),
                    k.lower(), k[1:], "A" + k])
    out.update(["", "A" * 300, "\x7f", "!", "~~~~", "\xff\xfe"])
    return sorted(k for k in out if k not in s)


def zif_memcheck_task(task):
    """faulted images through the uninstrumented driver under valgrind memcheck: an image that is accepted must not
    leave lookups working on memory nothing was loaded into (ASan does not see reads of uninitialised heap)"""
    from .c10 import _VG
    plaindir, name, kind, items, tmpd = task
    sh = Shard()
    d = tempfile.mkdtemp(prefix="zv-", dir=tmpd)
    try:
        for label, img in items:
            p = os.path.join(d, "img")
            with open(p, "wb") as fp:
                fp.write(img)
            reqs = ["O " + p] + zif_queries(None)
            stdin = ("\n".join(reqs) + "\n").encode()
            r = run(["valgrind", "-q", "--error-exitcode=97", "--track-origins=no", "--leak-check=no", "--num-callers=8",
                     str(plaindir / "zifdrv")], stdin=stdin, cpu=120, wall=600)
            sh.procs += 1
            cls = ("memcheck", name.split("/")[0] if name.startswith("synthetic") else "real", kind)
            if r.timed_out or r.cpu_exceeded:
                sh.extra["inconclusive_memcheck_timeouts"] += 1
                continue
            m = _VG.search(r.err or b"")
            if m is None and r.rc != 97:
                sh.ok("zif-memcheck", cls + ("clean",))
                continue
            what = m.group(1).decode("latin-1").split(" of size")[0].replace(" ", "-")[:48] if m else "error"
            fns = [g.decode("latin-1") for g in (m.group(2), m.group(3)) if g] if m else []
            fn = next((f for f in fns if not f.startswith(("__", "str", "mem", "_IO", "vfprintf", "printf"))), fns[0] if fns else "?")
            sh.bad("zif-memcheck", "zif:memcheck:%s:%s@%s" % (kind, what, fn),
                   "%s [%s %s]: valgrind memcheck on zifdrv: %s in %s" % (name, kind, label, what, fn),
                   dict(argv=["valgrind", "-q", "zifdrv"], variant="plain", files={"img": img.hex()},
                        driver_requests=["O {dir}/img"] + reqs[1:], stderr=(r.err or b"")[:3000].decode("latin-1")), cls=cls + (what,))
    finally:
        shutil.rmtree(d, ignore_errors=True)
    return sh


def map_task(task):
    bindir, label, pairs, seed, tmpd, do_faults = task
    import random
    rng = random.Random(seed)
    sh = Shard()
    d = tempfile.mkdtemp(prefix="zm-", dir=tmpd)
    try:
        src = os.path.join(d, "m.tzmap")
        with open(src, "w") as fp:
            for k, z in pairs:
                fp.write("%s\t%s\n" % (k, z))
        cc = os.path.join(d, "m.tzmcc")
        r = run([str(bindir / "tzmap"), "cc", "-o", cc, src], cpu=20, wall=120)
        sh.procs += 1
        if sh.check_san(r, "map-compile", "map:cc:%s" % label.rstrip("0123456789")):
            return sh
        if r.rc != 0 or not os.path.exists(cc):
            sh.bad("map-compile", "map:cc:failed", "tzmap cc failed on source %s: rc=%s %s" %
                   (label, r.rc, r.err[-200:].decode("latin-1")), dict(source=open(src).read()[:2000]))
            return sh
        img = open(cc, "rb").read()
        if label == "overfull":
            # keys the compiler says it skipped are not in the map
            import re as _re
            dropped = set(m.group(1).decode("latin-1") for m in _re.finditer(rb"key `([^']*)' skipped", r.err or b""))
            if not dropped:
                sh.bad("map-compile", "map:cc:overfull-silent", "tzmap cc on %d keys x 70-byte zone names (pool > 64 KiB): no line reported "
                       "as skipped" % len(pairs), dict(stderr=(r.err or b"")[-400:].decode("latin-1")))
            pairs = [(k, z) for k, z in pairs if k not in dropped]
            sh.extra["overfull_keys_reported_skipped"] += len(dropped)
        want = dict(pairs)
        present = [k for k, _ in pairs]
        absent = absent_keys(present, rng)
        reqs = ["O " + cc] + ["F " + esc(k) for k in present] + ["F " + esc(k) for k in absent]
        ans, deaths = drive(bindir / "tzmdrv", reqs, sh, cpu=10, wall=120, preamble=["O " + cc])
        for ix, rr in deaths:
            k = rr.san_kind() or ("cpu-limit" if rr.cpu_exceeded else "signal%s" % rr.sig if rr.sig else "rc%s" % rr.rc)
            q = reqs[ix] if 0 <= ix < len(reqs) else "?"
            sh.bad("map-lookup", "map:find:%s:%s" % (k, "present" if q[2:] in want else "absent"),
                   "source %s (%d keys): tzmdrv %s on %r" % (label, len(pairs), k, q),
                   dict(files={"m.tzmcc": img.hex()}, driver_requests=["O {dir}/m.tzmcc", q],
                        stderr=rr.err[-1200:].decode("latin-1")))
        lcls = label.rstrip("0123456789")
        for rq, a in zip(reqs[1:], ans[1:]):
            if a is None:
                continue
            key = bytes.fromhex("".join("%02x" % ord(c) for c in "")).decode() if False else None
            # un-escape the key again
            kraw = rq[2:]
            k = kraw.encode("latin-1").decode("unicode_escape") if "\\" in kraw else kraw
            if k in want:
                c = ("map", lcls, "present", "len%d" % min(len(k), 9))
                if a == "OK " + want[k]:
                    sh.ok("map-lookup", c)
                else:
                    sh.bad("map-lookup", "map:present:%s:%s" % (lcls, "null" if a == "NULL" else "wrong"),
                           "source %s: key %r maps to %r, tzm_find says %r" % (label, k, want[k], a),
                           dict(files={"m.tzmcc": img.hex()}, driver_requests=["O {dir}/m.tzmcc", rq],
                                expected="OK " + want[k], observed=a, source=open(src).read()[:3000]), cls=c)
            else:
                c = ("map", lcls, "absent", "len%d" % min(len(k), 9))
                if a == "NULL":
                    sh.ok("map-lookup", c)
                else:
                    kind = "prefix-of-present" if any(p.startswith(k) for p in present) and k else \
                           "extension-of-present" if any(k.startswith(p) for p in present) else "other"
                    sh.bad("map-lookup", "map:absent:%s:%s" % (lcls, kind),
                           "source %s: key %r is not in the source, tzm_find says %r" % (label, k, a),
                           dict(files={"m.tzmcc": img.hex()}, driver_requests=["O {dir}/m.tzmcc", rq],
                                expected="NULL", observed=a, source=open(src).read()[:3000]), cls=c)
        # tzmap show (whole map) must list the source
        r = run([str(bindir / "tzmap"), "show", "-f", cc], cpu=20, wall=120)
        sh.procs += 1
        if not sh.check_san(r, "map-show", "map:show:%s" % lcls):
            got = [tuple(l.split("\t", 1)) for l in r.out.decode("latin-1").split("\n") if l]
            if got == [tuple(p) for p in pairs]:
                sh.ok("map-show", ("map", lcls, "show"), n=len(pairs))
            else:
                miss = [p for p in pairs if tuple(p) not in set(got)]
                sh.bad("map-show", "map:show:mismatch:%s" % lcls, "tzmap show lists %d entries, source has %d; e.g. %r" %
                       (len(got), len(pairs), (miss or got)[:2]), dict(files={"m.tzmcc": img.hex()}, argv=["tzmap", "show", "-f", "{dir}/m.tzmcc"]))
        # dconv --zone MAP:KEY through TZMAP_DIR for keys whose zone exists
        sample = [(k, z) for k, z in pairs if os.path.exists("/usr/share/zoneinfo/" + z)][:: max(1, len(pairs) // 6)][:6]
        for k, zn in sample:
            try:
                z = tzif.load("/usr/share/zoneinfo/" + zn)
            except Exception:
                continue
            t = 1340000000
            off = z.offset(t)
            if off is None:
                continue
            civ = lambda e: cal.Day(e // 86400 + cal.ORD_UNIX).ymd() + "T%02d:%02d:%02d" % (e % 86400 // 3600, e % 3600 // 60, e % 60)
            argv = [str(bindir / "dconv"), "--zone", "m:" + k, "-f", "%FT%T", civ(t)]
            r = run(argv, env={"TZMAP_DIR": d}, cpu=5, wall=60)
            sh.procs += 1
            if sh.check_san(r, "map-cli", "map:cli"):
                continue
            if r.out.decode("latin-1").strip() == civ(t + off):
                sh.ok("map-cli", ("map", "cli"))
            else:
                sh.bad("map-cli", "map:cli:wrong", "%s with TZMAP_DIR -> %r, key %s maps to %s (offset %+d): %s" %
                       (core.shq(argv), r.out[:80], k, zn, off, civ(t + off)),
                       dict(argv=["dconv", "--zone", "m:" + k, "-f", "%FT%T", civ(t)], env={"TZMAP_DIR": "{dir}"},
                            files={"m.tzmcc": img.hex()}, expected=civ(t + off)))
        if do_faults:
            fault_images = [("len=%d" % n, img[:n]) for n in range(0, len(img), 1 if len(img) < 600 else 7)]
            for v in (0, 1, 3, 4, len(img) - 16, len(img) - 15, len(img), 65535, 2 ** 24, 2 ** 31, 2 ** 32 - 1):
                if v >= 0:
                    fault_images.append(("off=%d" % v, img[:4] + struct.pack(">I", v & 0xffffffff) + img[8:]))
            for _ in range(40):
                i = rng.randrange(16, len(img))
                fault_images.append(("byte@%d" % i, img[:i] + bytes([rng.choice([0, 255, 1, 0x41])]) + img[i + 1:]))
            fault_images.append(("magic", b"TZmX" + img[4:]))
            qs = ["F " + esc(k) for k in (present[:6] + present[-3:] + absent[:12])]
            for lab, fim in fault_images:
                fp = os.path.join(d, "f.tzmcc")
                with open(fp, "wb") as f:
                    f.write(fim)
                reqs = ["O " + fp] + qs + ["X"]
                ans, deaths = drive(bindir / "tzmdrv", reqs, sh, cpu=3, wall=60, max_restarts=2, preamble=["O " + fp])
                kind = lab.split("=")[0].split("@")[0]
                c = ("mapfault", kind)
                # the tool's own readers of a compiled map: dump and check walk the records linearly
                for sub in (["show", "-f", fp], ["check", fp], ["show", "-f", fp, present[0]]):
                    rt = run([str(bindir / "tzmap")] + sub, cpu=5, wall=60, max_out=8 << 20)
                    sh.procs += 1
                    kk = rt.san_kind() or ("cpu-limit" if rt.cpu_exceeded else "signal%s" % rt.sig if rt.sig else None)
                    if rt.timed_out and not rt.cpu_exceeded:
                        continue
                    if kk:
                        sh.bad("map-safety", "mapfault:tool-%s:%s:%s" % (sub[0], kind, kk),
                               "faulted map image [%s of %s]: tzmap %s: %s" % (lab, label, sub[0], kk),
                               dict(files={"f.tzmcc": fim.hex()}, argv=["tzmap"] + [a if a != fp else "{dir}/f.tzmcc" for a in sub],
                                    stderr=rt.err[-1200:].decode("latin-1")), cls=c + ("tool-died",))
                    else:
                        sh.ok("map-safety", c + ("tool-" + sub[0],))
                if deaths:
                    for ix, rr in deaths:
                        k = rr.san_kind() or ("cpu-limit" if rr.cpu_exceeded else "signal%s" % rr.sig if rr.sig else "rc%s" % rr.rc)
                        if rr.timed_out and not rr.cpu_exceeded:
                            continue
                        sh.bad("map-safety", "mapfault:%s:%s" % (kind, k),
                               "faulted map image [%s of %s]: tzmdrv %s on %r" % (lab, label, k, reqs[ix] if 0 <= ix < len(reqs) else "?"),
                               dict(files={"f.tzmcc": fim.hex()}, driver_requests=["O {dir}/f.tzmcc"] + reqs[1:ix + 1],
                                    stderr=rr.err[-1200:].decode("latin-1")), cls=c + ("died",))
                else:
                    sh.ok("map-safety", c + ("rejected" if ans[0] == "NULL" else "accepted",))
        sh.sample(dict(source=label, keys=len(pairs), image_bytes=len(img)), cap=1)
    finally:
        shutil.rmtree(d, ignore_errors=True)
    return sh


def _dispatch(t):
    return zif_fault_task(t[1]) if t[0] == "zif" else zif_memcheck_task(t[1]) if t[0] == "zifvg" else map_task(t[1])


SEED_ZONES = ["UTC", "Etc/GMT+12", "Asia/Kathmandu", "Africa/Monrovia", "Pacific/Kiritimati", "Asia/Pyongyang",
              "America/Caracas", "Asia/Jayapura", "Europe/Berlin", "Asia/Hebron", "America/St_Johns", "right/UTC"]


def main(tier, seed):
    ctx = core.Ctx("C19", tier, seed, level="fault_enumeration")
    bindir = ctx.bin("san")
    rng = ctx.rng
    quick = tier == "quick"
    tmpd = tempfile.mkdtemp(prefix="verif-c19-")
    try:
        seeds = []
        for n in SEED_ZONES if not quick else SEED_ZONES[:8]:
            p = os.path.join("/usr/share/zoneinfo", n)
            if os.path.exists(p):
                seeds.append((n, open(p, "rb").read()))
        for k in range(12 if not quick else 6):
            ver = [b"\0", b"2", b"3"][k % 3]
            ntr = [0, 1, 2, 5, 17, 40][k % 6]
            nty = [1, 2, 3, 4][k % 4]
            types = [(rng.choice([0, 3600, -12600, 20700, 50]), i & 1, 0) for i in range(nty)]
            t = -1500000000
            trs = []
            for i in range(ntr):
                t += rng.randrange(86400, 40000000)
                trs.append((t, (i + 1) % nty))
            seeds.append(("synthetic/v%s-n%d" % (ver.decode("latin-1").replace("\0", "1"), ntr), tzif.make(trs, types, version=ver)))
        tasks = []
        for name, data in seeds:
            for kind, items in zif_faults(name, data, rng, quick):
                for i in range(0, len(items), 60):
                    tasks.append(("zif", (bindir, name, data, kind, items[i:i + 60], tmpd)))
        tasks.append(("zif", (bindir, "not-tzif", b"", "not-tzif", NOT_TZIF, tmpd)))
        # the same faults of the fields that decide how the image is decoded, under memcheck
        plaindir = ctx.bin("plain")
        nvg = 0
        for name, data in (seeds[:2] + seeds[-6:] if quick else seeds):
            for kind, items in zif_faults(name, data, rng, quick):
                if kind in ("version-magic", "header-count", "type-index"):
                    items = items if kind == "version-magic" or not quick else items[::7]
                    nvg += len(items)
                    for i in range(0, len(items), 8):
                        tasks.append(("zifvg", (plaindir, name, kind, items[i:i + 8], tmpd)))
        zones = [n for n, _ in tzif.all_zone_files() if "/" in n and not n.startswith(("right/", "posix/"))]
        zones.sort()
        for i, (label, pairs) in enumerate(make_sources(rng, zones, quick)):
            tasks.append(("map", (bindir, label, pairs, seed * 31 + i, tmpd, len(pairs) <= 70)))
        only = os.environ.get("VERIF_C19_ONLY")
        if only:
            tasks = [t for t in tasks if t[0] == only]
        nimg = sum(len(t[1][4]) for t in tasks if t[0] == "zif")
        for sh in core.pmap(_dispatch, tasks):
            ctx.merge(sh)
    finally:
        shutil.rmtree(tmpd, ignore_errors=True)
    ctx.rule = ("fault enumeration: %d seed TZif files (%d real, rest synthetic v1/v2/v3) x {every truncation length%s, "
                "every header count field of both headers x {0,1,true-1,true+1,255,256,65535,2^31-1,2^32-1}, type "
                "index bytes x {ntypes,255}, version byte x 6, second magic/version} = %d images, plus %d non-TZif "
                "files; each opened through zifdrv (exact-size heap image) and queried (L/U/R at 8+ instants, T at "
                "7 indices, N, copy); safety = no sanitizer/probe report, no signal, bounded CPU; accepted images "
                "the oracle can read must answer from their own table; the version, count and type-index faults again through "
                "the uninstrumented driver under valgrind memcheck (uninitialised-value use). Zone maps: %d generated sources compiled by "
                "`tzmap cc`; every present key must map to its zone, ~500 absent keys (neighbours, prefixes, "
                "extensions, empty, long, high-bit) must be NULL, `tzmap show` must list the source, dconv --zone "
                "MAP:KEY via TZMAP_DIR; compiled images <= 70 keys: every truncation, offset-field faults, byte "
                "corruptions. distinct_nontrivial = distinct (family, fault kind, outcome)" %
                (len(seeds), sum(1 for n, _ in seeds if not n.startswith("synthetic")),
                 " (every 3rd byte beyond 1400 bytes in quick)" if quick else "", nimg, len(NOT_TZIF),
                 sum(1 for t in tasks if t[0] == "map")))
    ctx.cov["fault_images_tzif"] = nimg
    ctx.assumptions = ["a corrupted file that is still a valid TZif file is judged by its own table",
                       "the .tzmap payloads are not shipped (no network): sources are generated, zone names from /usr/share/zoneinfo"]
    ctx.min_evals = 2000
    return ctx.finish()


if __name__ == "__main__":
    sys.exit(main("quick", 1))
