"""C20 - results depend only on the arguments, not on clock, TZ or locale settings"""
import sys

from .. import core
from ..core import Shard, run, res_replay
from ..oracle import cal, loc as locmod

TZS = [None, "UTC", "Europe/Berlin", "America/New_York", "Asia/Kolkata", "Pacific/Kiritimati", "Australia/Lord_Howe",
       ":/nonexistent/zone", "EST5EDT", "<+1145>-11:45", "CET-1CEST,M3.5.0,M10.5.0/3", "", "garbage/../..", "UTC+14", "right/UTC"]
LANGS = [None, "C", "POSIX", "de_DE.UTF-8", "tr_TR.UTF-8", "ja_JP.eucJP", "ar_SA", "en_US.ISO-8859-1", "xx_YY", "", "C.UTF-8", "ru_RU.KOI8-R"]
NOWS = [None, 0, 1, 86399, 951782399, 951782400, 1330473600, 1330559999, 1356998399, 1356998400, 2147483647, 2147483648,
        4102444800, 4107542399, 32503680000, 64060588799, 67767976233, 946684799, 946684800, 1709251199]


def hms(s):
    return "%02d:%02d:%02d" % (s // 3600, s // 60 % 60, s % 60)


def rand_config(rng):
    env = {}
    tz = rng.choice(TZS)
    env["TZ"] = tz
    for k in ("LANG", "LC_ALL", "LC_TIME", "LANGUAGE"):
        env[k] = rng.choice(LANGS) if rng.random() < .6 else None
    now = rng.choice(NOWS) if rng.random() < .7 else rng.randrange(0, 67000000000)
    env["VERIF_FAKE_NOW"] = None if now is None else str(now)
    return env


BASE_CFG = {"TZ": "UTC", "LANG": None, "LC_ALL": "C", "LC_TIME": None, "LANGUAGE": None, "VERIF_FAKE_NOW": "1330473600"}


def rand_invocation(rng, bindir):
    """-> (argv, stdin bytes, class) with fully specified input, or with --base"""
    T = lambda t: str(bindir / t)
    o = rng.randrange(cal.ORD_MIN + 400, cal.ORD_MAX - 1500)
    o2 = o + rng.choice([0, 1, -1, 30, 366, rng.randrange(-1000, 1000)])
    D, D2 = cal.Day(o), cal.Day(o2)
    s, s2 = rng.randrange(86400), rng.randrange(86400)
    d, d2 = D.ymd(), D2.ymd()
    dt, dt2 = d + "T" + hms(s), d2 + "T" + hms(s2)
    lines = ("\n".join(rng.choice([d, dt2, "x " + d2 + " y", dt, "nothing here"]) for _ in range(6)) + "\n").encode()
    k = rng.randrange(38)
    if k == 0:
        return [T("dconv"), dt, "-f", "%A %d %B %Y %H:%M:%S %j %V %u %a %b"], b"", "dconv-f"
    if k == 1:
        return [T("dconv"), "--zone", rng.choice(["Europe/Berlin", "America/New_York", "Asia/Tokyo"]), dt], b"", "dconv-zone"
    if k == 2:
        return [T("dconv"), "--from-zone", rng.choice(["Europe/Berlin", "America/Sao_Paulo"]), "--zone", "Asia/Kolkata", dt], b"", "dconv-zones"
    if k == 3:
        return [T("dadd"), rng.choice([d, dt]), rng.choice(["+1mo", "-1y", "+3d", "+5b", "+2w"])], b"", "dadd-date"
    if k == 4:
        return [T("dadd"), rng.choice([hms(s), dt]), rng.choice(["+2h", "-90m", "+86399s"])], b"", "dadd-time"
    if k == 5:
        return [T("ddiff"), d, d2, "-f", rng.choice(["%d", "%m %d", "%Y %m %d", "%w %d"])], b"", "ddiff-date"
    if k == 6:
        return [T("ddiff"), dt, dt2, "-f", rng.choice(["%S", "%H:%M:%S", "%d %H"])], b"", "ddiff-dt"
    if k == 7:
        return [T("dround"), dt, rng.choice(["/1h", "/-15m", "Mon", "15", "/1mo", "Feb"])], b"", "dround"
    if k == 8:
        return [T("dseq"), d, cal.Day(o + rng.randrange(0, 40)).ymd()] + rng.choice([[], ["--skip", "sat,sun"], ["-f", "%a %d %b"]]), b"", "dseq-date"
    if k == 9:
        return [T("dseq"), hms(s - s % 3600), "1h", hms((s - s % 3600 + 4 * 3600) % 86400)], b"", "dseq-time"
    if k == 10:
        return [T("dtest"), d, rng.choice(["--lt", "--eq", "--ge", "--cmp"]), d2], b"", "dtest"
    if k == 11:
        return [T("dgrep"), rng.choice([">=", "<", "="]) + d2], lines, "dgrep"
    if k == 12:
        return [T("dsort")] + rng.choice([[], ["-r"]]), lines, "dsort"
    if k == 13:
        return [T("dzone"), "Europe/Berlin", "Asia/Tokyo", dt], b"", "dzone"
    if k == 14:
        return [T("dzone"), rng.choice(["--next", "--prev"]), "America/New_York", dt], b"", "dzone-next"
    if k == 15:
        return [T("strptime"), "-i", "%d %b %Y %H:%M:%S", "-f", "%A %d %B %Y %T %j", "%02d %s %04d %s" % (D.d, cal.MON_ABBR[D.m - 1], D.y, hms(s))], b"", "strptime"
    if k == 16 and rng.random() < .5:
        # libc strptime/strftime behind the wrapper: the zone it sees must be UTC whatever TZ says
        return [T("strptime"), "-t", "-i", "%Y-%m-%d %H:%M:%S", "-f", rng.choice(["%s", "%F %T %Z", "%s %z"]),
                "%s %s" % (d, hms(s))], b"", "strptime-tz"
    if k == 16:
        return [T("dconv"), "-S", "-f", "%d.%m.%Y"], lines, "dconv-sed"
    if k == 17:
        return [T("dconv"), "-i", "%a %d %b %Y", "%s %02d %s %04d" % (cal.WD_ABBR[D.wd], D.d, cal.MON_ABBR[D.m - 1], D.y)], b"", "dconv-names-in"
    # --- underspecified input, determined by --base alone -------------------
    base = rng.choice([d2, dt2])
    if k == 18:
        return [T("dconv"), "--base", base, "-i", "%d", "%02d" % rng.randrange(1, 29)], b"", "base-day"
    if k == 19:
        return [T("dconv"), "--base", base, "-i", "%m-%d", "%02d-%02d" % (rng.randrange(1, 13), rng.randrange(1, 29))], b"", "base-md"
    if k == 20:
        return [T("dconv"), "--base", base, "-i", "%y-%m-%d", "%02d-%02d-%02d" % (rng.choice([0, 68, 69, 99, rng.randrange(100)]), D.m, min(D.d, 28))], b"", "base-y2"
    if k == 21:
        return [T("dconv"), "--base", base, "-i", "%a", rng.choice(cal.WD_ABBR)], b"", "base-wday"
    if k == 22:
        return [T("dadd"), "--base", base, "-i", "%d", "%02d" % rng.randrange(1, 29), "+1mo"], b"", "base-dadd"
    if k == 23:
        return [T("dconv"), "--base", base, "-i", "%_y %b %d", "%d %s %02d" % (rng.randrange(10), cal.MON_ABBR[D.m - 1], min(D.d, 28))], b"", "base-y1"
    if k == 24:
        return [T("dround"), "--base", base, "-i", "%d", "%02d" % rng.randrange(1, 29), "Mon"], b"", "base-dround"
    if k == 25:
        return [T("dseq"), "--base", base, "-i", "%d", "%02d" % rng.randrange(1, 10), "%02d" % rng.randrange(10, 29)], b"", "base-dseq"
    md = lambda: "%02d-%02d" % (rng.randrange(1, 13), rng.randrange(1, 29))
    mdlines = ("\n".join(rng.choice(["x %s y" % md(), md(), "nothing"]) for _ in range(8)) + "\n").encode()
    if k == 26:
        return [T("dgrep"), "--base", base, "-i", "%m-%d", rng.choice([">=", "<", "="]) + md()], mdlines, "base-dgrep"
    if k == 27:
        y2 = lambda: "%02d-%s" % (rng.choice([0, 68, 69, 70, 99, rng.randrange(100)]), md())
        y2lines = ("\n".join(y2() for _ in range(8)) + "\n").encode()
        return [T("dgrep"), "--base", base, "-i", "%y-%m-%d", rng.choice([">=", "<"]) + y2()], y2lines, "base-dgrep-y2"
    if k == 28:
        return [T("dtest"), "--base", base, "-i", "%m-%d", md(), rng.choice(["--lt", "--ge", "--cmp"]), md()], b"", "base-dtest"
    if k == 29:
        return [T("ddiff"), "--base", base, "-i", "%m-%d", md(), md(), "-f", "%d"], b"", "base-ddiff"
    if k == 30:
        return [T("dsort"), "--base", base, "-i", "%m-%d"], mdlines, "base-dsort"
    if k == 31:
        return [T("dconv"), "--base", base, "-i", "%m-%d", "-S", "-f", "%F"], mdlines, "base-dconv-sed"
    # a time of day alone, moved between zones: the date that picks the UTC offset (DST or not) comes from --base
    z = rng.choice(["Europe/Berlin", "America/New_York", "Australia/Sydney", "America/Santiago"])
    if k == 32:
        return [T("dconv"), "--base", base, "--zone", z, hms(s)], b"", "base-time-zone"
    if k == 33:
        return [T("dconv"), "--base", base, "--from-zone", z, "--zone", "Asia/Kolkata", hms(s)], b"", "base-time-fromzone"
    if k == 34:
        return [T("dadd"), "--base", base, "--zone", z, hms(s), "+90m"], b"", "base-time-zone-dadd"
    # a time of day with the hour (and minute) left open: those come from --base, not from the clock
    ms = "%02d:%02d" % (s // 60 % 60, s % 60)
    if k == 35:
        return [T("dconv"), "--base", base] + rng.choice([["-i", "%M:%S", ms], ["-i", "%S", ms[3:]], ["-i", "%M", ms[:2]]]), b"", "base-partial-time"
    if k == 36:
        return [T("dadd"), "--base", base, "-i", "%M:%S", ms, rng.choice(["+1h", "-90m", "+1d"])], b"", "base-partial-time-dadd"
    return [T("dconv"), "--base", base, "-i", "%M:%S", "-f", "%T"], ("%s\nat %s\n" % (ms, ms)).encode(), "base-partial-time-stdin"


def config_task(task):
    bindir, seed, n, ncfg = task
    import random
    rng = random.Random(seed)
    sh = Shard()
    for _ in range(n):
        argv, stdin, cls = rand_invocation(rng, bindir)
        ref = run(argv, stdin=stdin, env=BASE_CFG, cpu=10, wall=60)
        sh.procs += 1
        if sh.check_san(ref, "config", "cfg:%s" % cls):
            continue
        for _ in range(ncfg):
            env = rand_config(rng)
            r = run(argv, stdin=stdin, env=env, cpu=10, wall=60)
            sh.procs += 1
            if sh.check_san(r, "config", "cfg:%s" % cls):
                continue
            diff = [k for k in ("TZ", "LANG", "LC_ALL", "LC_TIME", "VERIF_FAKE_NOW") if env.get(k) != BASE_CFG.get(k)]
            c = (cls, "tz" if "TZ" in diff else "-", "lang" if set(diff) & {"LANG", "LC_ALL", "LC_TIME"} else "-",
                 "clock" if "VERIF_FAKE_NOW" in diff else "-")
            if r.out == ref.out and r.rc == ref.rc:
                sh.ok("config", c)
            else:
                # find the single setting that matters, for the signature
                culprit = []
                for kname in ("TZ", "LANG", "LC_ALL", "LC_TIME", "LANGUAGE", "VERIF_FAKE_NOW"):
                    e1 = dict(BASE_CFG)
                    e1[kname] = env.get(kname)
                    r1 = run(argv, stdin=stdin, env=e1, cpu=10, wall=60)
                    sh.procs += 1
                    if r1.out != ref.out or r1.rc != ref.rc:
                        culprit.append(kname)
                sh.bad("config", "cfg:%s:%s" % (cls, "+".join(culprit) or "combination"),
                       "%s prints %r (rc %s) under %s but %r (rc %s) under the baseline" %
                       (core.shq(argv), r.out[:80], r.rc, {k: v for k, v in env.items() if v is not None}, ref.out[:80], ref.rc),
                       dict(argv=argv, stdin=stdin.decode("latin-1"), env=env), cls=c)
        sh.sample(dict(cmd=core.shq(argv)[-100:], out=ref.out[:60].decode("latin-1")), cap=2)
    return sh


def control_task(task):
    """positive control: the injected clock is what the tools see (underspecified input without --base follows it)"""
    bindir, seed = task
    import random
    rng = random.Random(seed)
    sh = Shard()
    for _ in range(12):
        now = rng.choice([x for x in NOWS if x and x < 4107456000])   # the clock breakdown is exact up to 2100-02-28 only
        o = cal.ORD_UNIX + now // 86400
        D = cal.Day(o)
        env = dict(BASE_CFG)
        env["VERIF_FAKE_NOW"] = str(now)
        env["TZ"] = rng.choice(TZS)
        r = run([str(bindir / "dconv"), "today"], env=env, cpu=10, wall=60)
        r2 = run([str(bindir / "dconv"), "-i", "%d", "15"], env=env, cpu=10, wall=60)
        sh.procs += 2
        exp1 = D.ymd()
        exp2 = "%04d-%02d-15" % (D.y, D.m)
        if r.out.decode().strip() == exp1 and r2.out.decode().strip() == exp2:
            sh.ok("control", ("control", "clock-seen"))
            sh.extra["clock_sensitive_controls_seen"] += 1
        else:
            sh.bad("control", "cfg:control", "with the clock at %d (%s): dconv today -> %r, dconv -i %%d 15 -> %r (TZ=%r)" %
                   (now, exp1, r.out, r2.out, env["TZ"]), res_replay(r), cls=("control", "mismatch"))
    return sh


def locale_pair_task(task):
    """--from-locale A (parsing) and --locale B (printing) act on their own direction only"""
    bindir, seed, pairs, ndays = task
    import random
    rng = random.Random(seed)
    sh = Shard()
    L = locmod.load()
    EN = dict(a=["Mon", "Tue", "Wed", "Thu", "Fri", "Sat", "Sun"], A=cal.WD_LONG, b=cal.MON_ABBR, B=cal.MON_LONG)
    for (la, lb) in pairs:
        A = L[la] if la else EN
        B = L[lb] if lb else EN
        tool = rng.choice(["dconv", "dconv", "dadd", "dround", "dseq"])
        long_ = rng.random() < .5
        ka, kb = ("A", "B") if long_ else ("a", "b")
        # input layouts: the name may lead the text (the stream scanner then has to find it by its length range)
        lay = rng.choice(["wdmy", "wdmy", "mdy", "dmy"])
        via = rng.choice(["arg", "arg", "stdin", "sed"]) if tool in ("dconv", "dadd", "dround") else "arg"
        W, M = ("%A", "%B") if long_ else ("%a", "%b")
        ifmt = {"wdmy": W + " %d " + M + " %Y", "mdy": M + " %d, %Y", "dmy": "%d. " + M + " %Y"}[lay]
        ofmt = W + ", %d " + M + " %Y"
        days = [cal.Day(rng.randrange(cal.ORD_MIN + 400, cal.ORD_MAX - 1500)) for _ in range(ndays)]
        texts, exps = [], []
        for D in days:
            if tool == "dadd":
                R = cal.Day(D.o + 1)
            elif tool == "dround":
                o2 = D.o
                while (o2 - 1) % 7 != 0:
                    o2 += 1
                R = cal.Day(o2)
            else:
                R = D
            # the rows of data/locale run Monday..Sunday, January..December
            texts.append({"wdmy": "%s %02d %s %04d" % (A[ka][D.wd], D.d, A[kb][D.m - 1], D.y),
                          "mdy": "%s %02d, %04d" % (A[kb][D.m - 1], D.d, D.y),
                          "dmy": "%02d. %s %04d" % (D.d, A[kb][D.m - 1], D.y)}[lay])
            exps.append("%s, %02d %s %04d" % (B[ka][R.wd], R.d, B[kb][R.m - 1], R.y))
        opts = []
        if la:
            opts.append(rng.choice([["--from-locale", la], ["--from-locale=" + la]]))
        if lb:
            opts.append(rng.choice([["--locale", lb], ["--locale=" + lb]]))
        rng.shuffle(opts)
        opts = [x for o_ in opts for x in o_]
        env = dict(BASE_CFG)
        env.update({k: rng.choice(LANGS) for k in ("LANG", "LC_ALL", "LC_TIME")})
        for txt, exp in zip(texts, exps):
            if tool == "dseq":
                argv = [str(bindir / tool)] + opts + ["-i", ifmt, "-f", ofmt, txt, txt]
            else:
                argv = [str(bindir / tool)] + opts + ["-i", ifmt, "-f", ofmt, txt] + ({"dadd": ["+1d"], "dround": [A["a"][0]]}.get(tool, []))
            stdin = b""
            if via != "arg":
                # the same text as a stdin line (sed mode: inside other text), the date argument dropped
                k_ = argv.index(txt)
                argv = argv[:k_] + argv[k_ + 1:] + (["-S"] if via == "sed" else [])
                stdin = (("see: " + txt + " ;end\n") if via == "sed" else (txt + "\n")).encode("utf-8")
                if via == "sed":
                    exp = "see: " + exp + " ;end"
            r = run(argv, stdin=stdin, env=env, cpu=10, wall=60)
            sh.procs += 1
            if sh.check_san(r, "locale-pair", "loc:%s" % tool):
                continue
            got = r.out.decode("utf-8", "replace").rstrip("\n")
            c = (tool, "from" if la else "-", "to" if lb else "-", "long" if long_ else "abbr", lay, via)
            if got == exp:
                sh.ok("locale-pair", c)
            else:
                sh.bad("locale-pair", "loc:%s:%s:%s:%s:%s" % (tool, "from" if la else "-", "to" if lb else "-", lay, via),
                       "%s -> %r, the name tables say %r" % (core.shq(argv), got, exp), res_replay(r, expected=exp), cls=c)
    return sh


def names_task(task):
    """a month name standing alone is read with the input locale and --base, whatever it spells (hsb_DE: Now = November)"""
    bindir, seed, locs = task
    import random
    rng = random.Random(seed)
    sh = Shard()
    L = locmod.load()
    for la in locs:
        A = L[la]
        for kind, spec in (("b", "%b"), ("B", "%B")):
            names = A[kind]
            env = dict(BASE_CFG)
            env["VERIF_FAKE_NOW"] = str(rng.choice([x for x in NOWS if x]))
            env["TZ"] = rng.choice(TZS)
            argv = [str(bindir / "dconv"), "--from-locale", la, "--base", "2016-03-04", "-i", spec, "-f", "%Y-%m", "--"] + names
            r = run(argv, env=env, cpu=10, wall=60)
            sh.procs += 1
            if sh.check_san(r, "names", "names:%s" % kind):
                continue
            got, _ = core.align_lines(names, r)
            for i, (nm, g) in enumerate(zip(names, got)):
                want = "2016-%02d" % (i + 1)
                c = ("names", kind, "catch-phrase" if nm.lower() in ("now", "today", "time", "date", "tomo", "yday") else "plain")
                if g == want:
                    sh.ok("names", c)
                else:
                    sh.bad("names", "names:%s:%s" % (kind, c[2]), "dconv --from-locale %s --base 2016-03-04 -i %s %r -> %r, month %d expected" %
                           (la, spec, nm, g, i + 1), dict(argv=argv, expected=want, observed=g), cls=c)
    return sh


def _dispatch(t):
    if t[0] == "names":
        return names_task(t[1])
    return {"cfg": config_task, "ctl": control_task, "loc": locale_pair_task}[t[0]](t[1])


def main(tier, seed):
    import random
    ctx = core.Ctx("C20", tier, seed)
    bindir = ctx.bin("san")
    quick = tier == "quick"
    L = locmod.load()
    rng = random.Random(seed)
    parse_ok = sorted(k for k, v in L.items() if locmod.usable(v))
    allloc = sorted(L)
    tasks = [("ctl", (bindir, seed))]
    for i in range(64 if quick else 640):
        tasks.append(("cfg", (bindir, seed * 32452843 + i, 10 if quick else 25, 6 if quick else 10)))
    patdir = ctx.bin("pat")
    for i in range(16 if quick else 160):
        # same monitor, automatic variables pre-filled with a pattern: an unset fallback shows instead of reading a lucky zero
        tasks.append(("cfg", (patdir, seed * 32452843 + 7000 + i, 10 if quick else 25, 4 if quick else 8)))
    pairs = []
    if quick:
        pairs = [(rng.choice(parse_ok), rng.choice(allloc)) for _ in range(500)]
    else:
        # every ordered pair (parsing locale, printing locale)
        pairs = [(a, b) for a in parse_ok for b in allloc]
    pairs += [(None, b) for b in rng.sample(allloc, 40)] + [(a, None) for a in rng.sample(parse_ok, 40)]
    step = 20 if quick else 400
    nl = parse_ok if not quick else sorted(set(rng.sample(parse_ok, 60) + [x for x in ("hsb_DE", "fy_DE", "nds_NL", "wo_SN") if x in parse_ok]))
    for i in range(0, len(nl), 10):
        tasks.append(("names", (bindir, seed * 7 + i, nl[i:i + 10])))
    for i in range(0, len(pairs), step):
        tasks.append(("loc", (bindir, seed * 49979687 + i, pairs[i:i + step], 5 if quick else 1)))
    for sh in core.pmap(_dispatch, tasks):
        ctx.merge(sh)
    ctx.rule = ("'config' events = one invocation (18 fully specified templates over all tools, 20 templates with underspecified input (open date fields, 2-digit years, times of day moved between DST zones, times with the hour left open) "
                "plus --base in dconv, dadd, dround, dseq, dgrep, dtest, ddiff, dsort) run under the baseline (TZ=UTC, LC_ALL=C, fixed clock) and under random settings of TZ (15 values incl. "
                "POSIX strings, missing files), LANG/LC_ALL/LC_TIME/LANGUAGE (12 values), and the clock injected at gettimeofday()/"
                "time() (20 instants: epoch, leap days, year ends, 2038, 2100, 3000, 4000 + random, and the real clock); stdout and "
                "exit status must be identical; on a difference the single responsible setting is isolated; a slice is repeated on the 'pat' build (automatic variables pre-filled with a pattern); 'control' = the "
                "injected clock and TZ are really seen (dconv today / dconv -i %d follow the clock, not TZ); 'locale-pair' = "
                "dconv/dadd/dround/dseq with --from-locale A and/or --locale B in either order and spelling under random LANG, the text given as argument, as a stdin line or inside a -S line, name-first and number-first layouts: input "
                "names read from A's table, output names written from B's table (data/locale is the oracle), absent option = "
                "English; 'names' = every month name of a locale standing alone is read as that month with --base, also where it spells a catch phrase (Now). distinct_nontrivial = distinct (template, which settings differ) + (tool, from/to present, long/abbr)")
    ctx.assumptions = ["inputs without --base that leave fields open follow the clock by design and serve as positive control only",
                       "parsing locales are those whose names are prefix-free (as in C09)",
                       "weekday names in a rounding spec are given in the --from-locale language (it governs everything parsed)"]
    ctx.min_evals = 3000
    return ctx.finish()


if __name__ == "__main__":
    sys.exit(main("quick", 1))
