"""C11 - time-of-day and epoch arithmetic is exact across midnight"""
import sys
from datetime import date

from .. import core
from ..core import Shard, run, align_lines, res_replay
from ..oracle import cal, dur

UNIT = {"s": 1, "m": 60, "h": 3600}
EP_MIN = (cal.ORD_MIN - cal.ORD_UNIX) * 86400
EP_MAX = (cal.ORD_MAX - cal.ORD_UNIX) * 86400 + 86399


def ep(o, sod):
    return (o - cal.ORD_UNIX) * 86400 + sod


def split(e):
    d, s = divmod(e, 86400)
    return d + cal.ORD_UNIX, s


def hms(s):
    return "%02d:%02d:%02d" % (s // 3600, s // 60 % 60, s % 60)


def dtext(rep, e):
    o, s = split(e)
    D = cal.Day(o)
    if rep == "ymd":
        return (D.ymd() + "T" + hms(s),)
    if rep == "ywd":
        return (D.ywd() + "T" + hms(s),)
    if rep == "ymcw":
        return tuple(t + "T" + hms(s) for t in ((D.ymcw("07"), D.ymcw("00")) if D.iwd == 7 else (D.ymcw(),)))
    if rep == "epoch":
        return ("%d" % e,)
    raise KeyError(rep)


REPS = ["ymd", "ywd", "ymcw", "epoch"]


def carry_cls(e, t):
    dd = (t // 86400) - (e // 86400)
    a = abs(dd)
    c = "0" if a == 0 else "1" if a == 1 else "2-7" if a <= 7 else "8-15" if a <= 15 else ">15"
    oa, ob = split(e)[0], split(t)[0]
    A, Bd = date.fromordinal(oa), date.fromordinal(ob)
    x = "year" if A.year != Bd.year else "month" if A.month != Bd.month else "same"
    return "carry%s%s/%s" % ("-" if dd < 0 else "+", c, x)


def l606(*eps):
    """signature suffix for instants in the last 606 days of the range (finding F1)"""
    lim = (cal.ORD_MAX - 606 - cal.ORD_UNIX) * 86400 + 86400
    return ":last606" if any(e >= lim for e in eps) else ""


def add_task(task):
    bindir, rep, n, unit, eps = task[:5]
    more = list(task[5]) if len(task) > 5 else []      # further (n, unit) steps of the same invocation
    sh = Shard()
    delta = n * UNIT[unit] + sum(k * UNIT[u] for k, u in more)
    prs = [(e, e + delta) for e in eps if EP_MIN <= e + delta <= EP_MAX
           and EP_MIN <= e + n * UNIT[unit] <= EP_MAX]
    if not prs:
        return sh
    lines = [dtext(rep, e)[0] for e, _ in prs]
    dstr = "%+d%s" % (n, unit)
    if more:
        return multi_add(sh, bindir, rep, [(n, unit)] + more, prs, lines)
    if rep == "epoch":
        # negative epochs only work as arguments
        # stdin lines for non-negative epochs and positive counts; a negative
        # count as the first operand would itself parse as an epoch under -i %s,
        # and negative epochs are not found by the stream scanner: those go
        # through the unambiguous `dadd @N DUR` argument form, one by one
        outs = [None] * len(lines)
        judged = set()
        if n > 0:
            pos = [(k, l) for k, l in enumerate(lines) if not l.startswith("-")]
            single = [(k, l) for k, l in enumerate(lines) if l.startswith("-")][:25]
        else:
            pos = []
            single = list(enumerate(lines))[:: max(1, len(lines) // 40)]
        if pos:
            argv = [str(bindir / "dadd"), "-i", "%s", "-f", "%s", "--", dstr]
            r = run(argv, stdin=("\n".join(l for _, l in pos) + "\n").encode(), cpu=60, wall=300)
            sh.procs += 1
            sh.check_san(r, "san", "tadd:epoch:san")
            o2, crash = align_lines([l for _, l in pos], r)
            for (k, _), g in zip(pos, o2):
                outs[k] = g
                judged.add(k)
        for k, l in single:
            argv = [str(bindir / "dadd"), "-f", "%s", "--", "@" + l, dstr]
            r = run(argv, cpu=10, wall=60)
            sh.procs += 1
            sh.check_san(r, "san", "tadd:epoch:san")
            outs[k] = r.out.decode("latin-1").strip() or None
            judged.add(k)
        argv = [str(bindir / "dadd"), "-i", "%s", "-f", "%s", "--", dstr]
    else:
        argv = [str(bindir / "dadd"), "--", dstr]
        r = run(argv, stdin=("\n".join(lines) + "\n").encode(), cpu=60, wall=300)
        sh.procs += 1
        sh.check_san(r, "san", "tadd:%s:san" % rep)
        outs, crash = align_lines(lines, r)
        judged = set(range(len(outs)))
        if crash is not None and crash >= 0:
            sh.bad("tadd", "tadd:%s:%s:died" % (rep, unit), "dadd died/stalled at %r %s" % (lines[crash], dstr),
                   res_replay(r))
    for k in sorted(judged):
        if k >= len(outs):
            break
        got = outs[k]
        e, t = prs[k]
        exps = dtext(rep, t)
        cc = carry_cls(e, t)
        c = (rep, unit, cc)
        if got in exps:
            sh.ok("tadd", c)
        else:
            sh.bad("tadd", "tadd:%s:%s:%s:err=%s%s" % (rep, unit, cc.split("/")[0],
                                                       "refused" if got is None else "wrong", l606(e, t)),
                   "dadd %s %s -> %r, epoch arithmetic says %s" % (lines[k], dstr, got, exps[0]),
                   dict(argv=argv, input=lines[k], expected=list(exps), observed=got), cls=c)
    if outs and outs[0]:
        sh.sample(dict(cmd=core.shq(argv), input=lines[0], output=outs[0]), cap=1)
    return sh


def multi_add(sh, bindir, rep, steps, prs, lines):
    """several durations in ONE invocation: state left by one addition must not leak into the next"""
    # (an unsigned duration after a negative one is positive: every other positive step goes without its plus sign)
    durs = [("%d%s" if i and k > 0 and (i + k) % 2 == 0 else "%+d%s") % (k, u) for i, (k, u) in enumerate(steps)]
    if rep == "epoch":
        keep = [i for i, l in enumerate(lines) if not l.startswith("-")]
        lines = [lines[i] for i in keep]
        prs = [prs[i] for i in keep]
        if steps[0][0] < 0 or not lines:
            return sh
        argv = [str(bindir / "dadd"), "-i", "%s", "-f", "%s", "--"] + durs
    else:
        argv = [str(bindir / "dadd"), "--"] + durs
    r = run(argv, stdin=("\n".join(lines) + "\n").encode(), cpu=60, wall=300)
    sh.procs += 1
    sh.check_san(r, "san", "tadd:%s:multi:san" % rep)
    outs, crash = align_lines(lines, r)
    whole = any((k * UNIT[u]) % 86400 == 0 for k, u in steps[1:])
    for k, got in enumerate(outs):
        e, t = prs[k]
        exps = dtext(rep, t)
        first_crosses = (e + steps[0][0] * UNIT[steps[0][1]]) // 86400 != e // 86400
        c = (rep, "multi%d" % len(steps), "first-crosses-midnight" if first_crosses else "first-same-day",
             "then-whole-days" if whole else "then-partial")
        if got in exps:
            sh.ok("tadd-multi", c)
        else:
            sh.bad("tadd-multi", "tadd-multi:%s:%s:%s%s" % (rep, c[2], c[3], l606(e, t)),
                   "dadd %s %s -> %r, epoch arithmetic says %s" % (lines[k], " ".join(durs), got, exps[0]),
                   dict(argv=argv, input=lines[k], expected=list(exps), observed=got), cls=c)
    return sh


def diff_task(task):
    bindir, ea, ebs = task
    sh = Shard()
    A = dtext("ymd", ea)[0]
    lines = [dtext("ymd", e)[0] for e in ebs]
    argv = [str(bindir / "ddiff"), A, "-f", "%S"]
    r = run(argv, stdin=("\n".join(lines) + "\n").encode(), cpu=60, wall=300)
    sh.procs += 1
    sh.check_san(r, "san", "tdiff:san")
    outs, crash = align_lines(lines, r)
    for k, got in enumerate(outs):
        want = ebs[k] - ea
        mag = abs(want)
        c = ("tdiff", "+" if want >= 0 else "-",
             "<1m" if mag < 60 else "<1h" if mag < 3600 else "<1d" if mag < 86400 else "<16d" if mag < 16 * 86400 else
             "<2^31" if mag < 2 ** 31 else ">=2^31")
        if got == "%d" % want:
            sh.ok("tdiff", c)
        else:
            sh.bad("tdiff", "tdiff:%s:%s" % (c[1], c[2]),
                   "ddiff %s %s -f %%S -> %r, epoch difference is %d" % (A, lines[k], got, want),
                   dict(argv=argv, input=lines[k], expected=want, observed=got), cls=c)
    if outs:
        sh.sample(dict(cmd=core.shq(argv), input=lines[0], output=outs[0]), cap=1)
    # one operand as epoch stamp, the other as civil date-time (either way round)
    for mode in ("epoch-first", "epoch-last"):
        sub = list(range(0, len(ebs), max(1, len(ebs) // 60)))
        if mode == "epoch-first":
            argv = [str(bindir / "ddiff"), "-f", "%S", "--", "@%d" % ea]
            ins = [lines[k] for k in sub]
        else:
            argv = [str(bindir / "ddiff"), "-f", "%S", "-i", "%FT%T", "-i", "%s", "--", A]
            ins = ["%d" % ebs[k] for k in sub]
        r = run(argv, stdin=("\n".join(ins) + "\n").encode(), cpu=60, wall=300)
        sh.procs += 1
        sh.check_san(r, "san", "tdiff:mixed:san")
        outs2, _ = align_lines(ins, r)
        for k, got in zip(sub, outs2):
            want = ebs[k] - ea
            c = ("tdiff-mixed", mode, "+" if want >= 0 else "-", "pre1970" if min(ea, ebs[k]) < 0 else "post1970")
            if got == "%d" % want:
                sh.ok("tdiff", c)
            else:
                sh.bad("tdiff", "tdiff:mixed:%s:%s" % (mode, c[3]) + l606(ea, ebs[k]),
                       "%s < %s -> %r, epoch difference is %d" % (core.shq(argv), ins[sub.index(k)], got, want),
                       dict(argv=argv, input=ins[sub.index(k)], expected=want, observed=got), cls=c)
    return sh


def epoch_task(task):
    """%s / @N / -i %s  <-> civil date-time, incl. negative epochs"""
    bindir, eps = task
    sh = Shard()
    civ = [dtext("ymd", e)[0] for e in eps]
    # civil -> %s
    argv = [str(bindir / "dconv"), "-f", "%s"]
    r = run(argv, stdin=("\n".join(civ) + "\n").encode(), cpu=60, wall=300)
    sh.procs += 1
    sh.check_san(r, "san", "epoch:san")
    outs, _ = align_lines(civ, r)
    for k, got in enumerate(outs):
        e = eps[k]
        c = ("to-epoch", "neg" if e < 0 else "pos", "midnight" if e % 86400 == 0 else "eod" if e % 86400 == 86399 else "mid")
        if got == "%d" % e:
            sh.ok("epoch", c)
        else:
            sh.bad("epoch", "epoch:to:%s" % c[1], "dconv %s -f %%s -> %r, expected %d" % (civ[k], got, e),
                   dict(argv=argv, input=civ[k], expected=e, observed=got), cls=c)
    # @N and -i %s N -> civil (arguments), and -i %s with the numbers as stdin lines
    for mode in ("@", "-i%s", "-i%s<stdin"):
        for i in range(0, len(eps), 1500):
            ch = eps[i:i + 1500]
            if mode == "@":
                argv = [str(bindir / "dconv"), "-f", "%FT%T", "--"] + ["@%d" % e for e in ch]
            elif mode == "-i%s":
                argv = [str(bindir / "dconv"), "-i", "%s", "-f", "%FT%T", "--"] + ["%d" % e for e in ch]
            if mode == "-i%s<stdin":
                ins = ["%d" % e for e in ch]
                argv = [str(bindir / "dconv"), "-i", "%s", "-f", "%FT%T", "--"] + ins
                r = run(argv[:argv.index("--")], stdin=("\n".join(ins) + "\n").encode(), cpu=60, wall=300)
            else:
                r = run(argv, cpu=60, wall=300)
            sh.procs += 1
            sh.check_san(r, "san", "epoch:san")
            outs, _ = align_lines([a for a in argv[argv.index("--") + 1:]], r)
            for k, got in enumerate(outs):
                e = ch[k]
                c = ("from-epoch" + mode, "neg" if e < 0 else "zero" if e == 0 else "pos")
                if got == civ[i + k]:
                    sh.ok("epoch", c)
                else:
                    sh.bad("epoch", "epoch:from:%s:%s:%s%s" % (mode, c[1], "refused" if got is None else "wrong", l606(e)),
                           "dconv %s%d -f %%FT%%T -> %r, expected %s" % (mode + " " if mode != "@" else "@", e, got, civ[i + k]),
                           dict(argv=argv[:argv.index("--") + 1] + [argv[argv.index("--") + 1 + k]],
                                expected=civ[i + k], observed=got), cls=c)
    return sh


def mil_task(task):
    """24:00:00 denotes 00:00:00 of the following day"""
    bindir, ords = task
    sh = Shard()
    lines = [cal.Day(o).ymd() + "T24:00:00" for o in ords]
    nxt = [ep(o + 1, 0) for o in ords]
    checks = [
        (["dconv", "-f", "%s"], lambda i: "%d" % nxt[i], "epoch"),
        (["dconv", "-f", "%F"], lambda i: cal.Day(ords[i] + 1).ymd(), "date-only"),
        (["dadd", "--", "+1s"], lambda i: dtext("ymd", nxt[i] + 1)[0], "add+1s"),
        (["dadd", "--", "-1s"], lambda i: dtext("ymd", nxt[i] - 1)[0], "add-1s"),
        (["dadd", "--", "+1h"], lambda i: dtext("ymd", nxt[i] + 3600)[0], "add+1h"),
    ]
    for args, expf, tag in checks:
        argv = [str(bindir / args[0])] + args[1:]
        r = run(argv, stdin=("\n".join(lines) + "\n").encode(), cpu=60, wall=300)
        sh.procs += 1
        sh.check_san(r, "san", "mil:san")
        outs, _ = align_lines(lines, r)
        for k, got in enumerate(outs):
            D = cal.Day(ords[k])
            c = ("mil24", tag, "yearend" if (D.m, D.d) == (12, 31) else "ultimo" if D.d == cal.mdays(D.y, D.m) else "mid")
            if got == expf(k):
                sh.ok("mil24", c)
            else:
                sh.bad("mil24", "mil24:%s:%s" % (tag, c[2]), "%s on %s -> %r, expected %s" %
                       (" ".join(args), lines[k], got, expf(k)),
                       dict(argv=argv, input=lines[k], expected=expf(k), observed=got), cls=c)
    # difference between D T24:00:00 and (D+1) T00:00:00 is zero
    for k in range(0, len(ords), max(1, len(ords) // 40)):
        o = ords[k]
        argv = [str(bindir / "ddiff"), lines[k], cal.Day(o + 1).ymd() + "T00:00:00", "-f", "%S"]
        r = run(argv, cpu=10, wall=60)
        sh.procs += 1
        got = r.out.decode("latin-1").strip()
        if got == "0":
            sh.ok("mil24", ("mil24", "diff0"))
        else:
            sh.bad("mil24", "mil24:diff", "%s -> %r, expected 0" % (core.shq(argv), got), res_replay(r))
    return sh


def _dispatch(t):
    return {"add": add_task, "diff": diff_task, "epoch": epoch_task, "mil": mil_task}[t[0]](t[1])


def main(tier, seed):
    ctx = core.Ctx("C11", tier, seed)
    bindir = ctx.bin("san")
    rng = ctx.rng
    quick = tier == "quick"
    bnd = cal.boundary_ordinals()
    alld = range(cal.ORD_MIN, cal.ORD_MAX + 1)
    sods = [0, 1, 59, 60, 3599, 3600, 43199, 43200, 86398, 86399]
    base = []
    for o in rng.sample(bnd, 250 if quick else 5000) + rng.sample(alld, 150 if quick else 3000):
        for s in rng.sample(sods, 3) + [rng.randrange(86400)]:
            base.append(ep(o, s))
    N = {"s": [1, 59, 60, 61, 3599, 3600, 3601, 86399, 86400, 86401] +
              [k * 86400 + d for k in (2, 7, 8, 15, 16, 17) for d in (-1, 0, 1)] + [2 ** 31 - 1],
         "m": [1, 59, 60, 61, 1439, 1440, 1441, 10080, 23040, 35791394],
         "h": [1, 23, 24, 25, 167, 168, 169, 360, 384, 385, 596523]}
    tasks = []
    for rep in REPS:
        for unit, ns in N.items():
            for n in ns:
                for s in (1, -1):
                    tasks.append(("add", (bindir, rep, s * n, unit, base)))
        for _ in range(40 if quick else 600):
            unit = rng.choice("smh")
            n = rng.choice([1, -1]) * int(10 ** rng.uniform(0, {"s": 9.3, "m": 7.5, "h": 5.7}[unit]))
            tasks.append(("add", (bindir, rep, n, unit, rng.sample(base, 300))))
    # multi-step invocations: first step crossing (or not) midnight, then whole-day or partial counts
    whole = [(24, "h"), (48, "h"), (-24, "h"), (1440, "m"), (86400, "s"), (-86400, "s"), (172800, "s"), (2880, "m"), (384, "h")]
    for rep in REPS:
        for _ in range(30 if quick else 400):
            first = (rng.choice([1, -1]) * rng.choice([1, 2, 5, 13, 23]), "h") if rng.random() < .6 else \
                    (rng.choice([1, -1]) * rng.randrange(1, 90000), "s")
            second = rng.choice(whole) if rng.random() < .7 else (rng.choice([1, -1]) * rng.randrange(1, 3000), rng.choice("smh"))
            more = [second]
            if rng.random() < .3:
                more.append(rng.choice(whole))
            tasks.append(("add", (bindir, rep, first[0], first[1], rng.sample(base, 250), more)))
    for _ in range(300 if quick else 4000):
        ea = rng.choice(base)
        ebs = [ea + rng.choice([1, -1]) * int(10 ** rng.uniform(0, 10.8)) for _ in range(80)]
        ebs += [ea + d for d in (0, 1, -1, 59, 60, -60, 3600, -3600, 86399, 86400, -86400, 86401, 2 ** 31, -2 ** 31)]
        ebs = [e for e in ebs if EP_MIN <= e <= EP_MAX]
        tasks.append(("diff", (bindir, ea, ebs)))
    yrs = [ep(date(y, 1, 1).toordinal(), 0) + d for y in range(1601, 4096, 1 if not quick else 3) for d in (-1, 0, 1)]
    yrs = [e for e in yrs if EP_MIN <= e <= EP_MAX] + [0, 1, -1, 86399, -86400, 2 ** 31 - 1, 2 ** 31, -2 ** 31, 2 ** 32]
    for i in range(0, len(yrs), 1200):
        tasks.append(("epoch", (bindir, yrs[i:i + 1200])))
    tasks.append(("epoch", (bindir, rng.sample(base, min(len(base), 1200)))))
    mild = [o for o in rng.sample(bnd, 1500 if quick else 20000) if o < cal.ORD_MAX]
    for i in range(0, len(mild), 500):
        tasks.append(("mil", (bindir, mild[i:i + 500])))
    for sh in core.pmap(_dispatch, tasks):
        ctx.merge(sh)
    ctx.rule = ("events: (1) dadd DT +N{s,m,h} in representations %s, expected = civil date-time of epoch+N*unit "
                "(N incl. +-1, +-59..61, +-3599..3601, +-86399..86401, k*86400+-1 for k in 2,7,8,15,16,17, 2^31-1 s, "
                "35791394 m, 596523 h, random); (2) ddiff A B -f %%S = epoch(B)-epoch(A) on %d references x ~90 "
                "partners out to +-6e10 s; (3) %%s, @N, -i %%s bijective with civil date-times at every year start "
                "+-1 s incl. negative epochs; (4) 24:00:00 == next day 00:00:00 through %%s, %%F, dadd, ddiff. "
                "distinct_nontrivial = distinct (monitor, representation, unit, day-carry class, month/year crossing)"
                % (REPS, 300 if quick else 4000))
    ctx.assumptions = ["negative epochs are only accepted as command-line arguments (the stream scanner greps digits)",
                       "yd date-times are not accepted by the default parser and are not exercised here",
                       "+Nrs and 23:59:60 belong to C14; zones to C12"]
    ctx.min_evals = 100000
    return ctx.finish()


if __name__ == "__main__":
    sys.exit(main("quick", 1))
