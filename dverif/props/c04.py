"""C04 - month and year arithmetic keeps the day and clamps to the end of month"""
import sys
from datetime import date

from .. import core, addsweep
from ..core import Shard, run, res_replay
from ..oracle import cal, dur, tzif

MON_N = [1, 2, 3, 11, 12, 13, 24, 47, 48, 1200, 4800]
YEAR_N = [1, 3, 4, 7, 28, 56, 84, 100, 400, 1000]
QTR_N = [1, 4, 5]

# calendar -> (months fn or None, years fn)
FN = {
    "ymd": (dur.add_months_ymd, lambda o, n: dur.add_months_ymd(o, 12 * n)),
    "ymcw": (dur.add_months_ymcw, lambda o, n: dur.add_months_ymcw(o, 12 * n)),
    "bizda": (dur.add_months_bizda, lambda o, n: dur.add_months_bizda(o, 12 * n)),
    "ywd": (None, dur.add_years_ywd),
    "yd": (None, dur.add_years_yd),
    # seconds since 1970 have no months: the addition has to go through the civil date
    "epoch": (dur.add_months_ymd, lambda o, n: dur.add_months_ymd(o, 12 * n)),
}


def mid_ok(K, mid):
    """the intermediate result of a two-step addition is representable (epoch values: not in the last 606 days, F1)"""
    return mid is not None and dur.in_range(mid) and (K != "epoch" or mid <= cal.ORD_MAX - 606)


def eager(f1, a, f2, b):
    """two steps, the first result clamped before the second is taken (a count of seconds has no lazy day 31)"""
    def f(o, _n):
        m = f1(o, a)
        return None if m is None or not dur.in_range(m) else f2(m, b)
    return f


def pairs(K, ords, fn, n, ctx):
    out = []
    for o in ords:
        if K == "bizda" and not dur.is_bday(o):
            continue
        t = fn(o, n)
        if K == "epoch" and (o == cal.ORD_UNIX or (t is not None and max(o, t) > cal.ORD_MAX - 606)):
            ctx.skip("epoch-last606")
            continue
        if t is None or not dur.in_range(t):
            ctx.skip("result-out-of-range")
            continue
        out.append((o, t))
    return out


def dseq_task(task):
    """dseq A 1mo B: k-th element = A + k months taken in one step"""
    bindir, o, step, count = task
    sh = Shard()
    exp = []
    for k in range(count + 1):
        t = dur.add_months_ymd(o, k * step)
        if t is None:
            break
        exp.append(cal.Day(t).ymd())
    if len(exp) < 2:
        return sh
    argv = [str(bindir / "dseq"), exp[0], "%dmo" % step, exp[-1]]
    r = run(argv, cpu=20, wall=120, max_out=1 << 20)
    sh.procs += 1
    if sh.check_san(r, "san", "dseqmo:san"):
        return sh
    got = r.out.decode("latin-1").split("\n")[:-1]
    D = cal.Day(o)
    c = ("dseq-mo", "dom%d" % D.d if D.d >= 28 else "dom<28", "step%d" % step)
    if got == exp:
        sh.ok("dseqmo", c, n=len(exp))
    else:
        bad = next((i for i, (a, b) in enumerate(zip(got, exp)) if a != b), min(len(got), len(exp)))
        sh.bad("dseqmo", "dseqmo:dom=%s:step=%d:%s" % (D.d if D.d >= 28 else "lt28", step,
                                                         "count" if len(got) != len(exp) else "value"),
               "%s: element %d is %r, expected %r (%d/%d lines)" %
               (core.shq(argv), bad, got[bad] if bad < len(got) else None,
                exp[bad] if bad < len(exp) else None, len(got), len(exp)),
               res_replay(r, expected=exp[:50]), cls=c)
    sh.sample(dict(cmd=core.shq(argv), output=got[:4]), cap=1)
    # anchored on LAST: the k-th element from the end is LAST - k months taken in one step; FIRST a few days before the
    # earliest element so that nothing else fits
    expl = []
    for k in range(count + 1):
        t = dur.add_months_ymd(o, -k * step)
        if t is None or not dur.in_range(t - 40):
            break
        expl.append(t)
    if len(expl) >= 2:
        first = expl[-1] - (3 if cal.Day(expl[-1]).d > 3 else 0)
        expl_txt = [cal.Day(t).ymd() for t in reversed(expl)]
        argv = [str(bindir / "dseq"), cal.Day(first).ymd(), "%dmo" % step, expl_txt[-1], "--compute-from-last"]
        r = run(argv, cpu=20, wall=120, max_out=1 << 20)
        sh.procs += 1
        if not sh.check_san(r, "san", "dseqmo:san"):
            got = r.out.decode("latin-1").split("\n")[:-1]
            c = ("dseq-mo-from-last", "dom%d" % D.d if D.d >= 28 else "dom<28", "step%d" % step)
            if got == expl_txt:
                sh.ok("dseqmo", c, n=len(expl_txt))
            else:
                bad = next((i for i, (a, b) in enumerate(zip(got, expl_txt)) if a != b), min(len(got), len(expl_txt)))
                sh.bad("dseqmo", "dseqmo:from-last:dom=%s:step=%d:%s" % (D.d if D.d >= 28 else "lt28", step,
                                                                         "count" if len(got) != len(expl_txt) else "value"),
                       "%s: element %d is %r, expected %r (%d/%d lines)" %
                       (core.shq(argv), bad, got[bad] if bad < len(got) else None,
                        expl_txt[bad] if bad < len(expl_txt) else None, len(got), len(expl_txt)),
                       res_replay(r, expected=expl_txt[:50]), cls=c)
    return sh


def dseqc_task(task):
    """dseq FIRST +Nd|w Mmo|y LAST: every element is the one before plus the compound increment, as dadd adds it"""
    bindir, o, dd, unit, mm, count = task
    sh = Shard()
    xs = [o]
    for _ in range(count):
        t = xs[-1] + dd * (7 if unit == "w" else 1)
        if not dur.in_range(t) or cal.Day(t).d > 28:
            break
        t = dur.add_months_ymd(t, mm)
        if t is None or not dur.in_range(t):
            break
        xs.append(t)
    if len(xs) < 3:
        return sh
    inc = "%+d%s%+d%s" % (dd, unit, mm if mm % 12 else mm // 12, "mo" if mm % 12 else "y")
    exp = [cal.Day(t).ymd() for t in xs]
    argv = [str(bindir / "dseq"), exp[0], inc, exp[-1]]
    r = run(argv, cpu=20, wall=120, max_out=1 << 20)
    sh.procs += 1
    if sh.check_san(r, "san", "dseqc:san"):
        return sh
    got = r.out.decode("latin-1").split("\n")[:-1]
    c = ("dseq-compound", unit, "+" if dd > 0 else "-", "mo" if mm % 12 else "y")
    if got == exp:
        sh.ok("dseqmo", c, n=len(exp))
    else:
        bad = next((i for i, (a, b) in enumerate(zip(got, exp)) if a != b), min(len(got), len(exp)))
        sh.bad("dseqmo", "dseqc:%s:%s:%s" % (unit, c[3], "count" if len(got) != len(exp) else "value"),
               "%s: element %d is %r, expected %r (%d/%d lines)" % (core.shq(argv), bad, got[bad] if bad < len(got) else None,
                                                                    exp[bad] if bad < len(exp) else None, len(got), len(exp)),
               res_replay(r, expected=exp[:50]), cls=c)
    return sh


ZONES = ["Europe/Berlin", "America/New_York", "Australia/Lord_Howe", "Asia/Kolkata", "Pacific/Auckland", "America/St_Johns"]
_ZC = {}


def _zone(z):
    if z not in _ZC:
        _ZC[z] = tzif.load("/usr/share/zoneinfo/" + z)
    return _ZC[z]


def _loc(o, sod):
    return cal.Day(o).ymd() + "T%02d:%02d:%02d" % (sod // 3600, sod // 60 % 60, sod % 60)


def zone_task(task):
    """date-times in a zone's wall clock (--from-zone Z --zone Z): months and years move the wall-clock date, the
    time of day stays; operands on stdin lines and as the argument"""
    bindir, zone, durs, n_months, cases = task
    sh = Shard()
    Z = _zone(zone)
    keep = []
    for o, sod in cases:
        t = dur.add_months_ymd(o, n_months)
        if t is None or not dur.in_range(t):
            continue
        l0 = (o - cal.ORD_UNIX) * 86400 + sod
        l1 = (t - cal.ORD_UNIX) * 86400 + sod
        # both wall-clock readings must exist exactly once
        if len(Z.utc_candidates(l0)) != 1 or len(Z.utc_candidates(l1)) != 1:
            continue
        keep.append((_loc(o, sod), _loc(t, sod)))
    if not keep:
        return sh
    base = [str(bindir / "dadd"), "--from-zone", zone, "--zone", zone]
    argv = base + ["--"] + durs
    r = run(argv, stdin=("\n".join(a for a, _ in keep) + "\n").encode(), cpu=60, wall=300)
    sh.procs += 1
    sh.check_san(r, "san", "zoneadd:%s" % zone)
    outs, _ = core.align_lines([a for a, _ in keep], r)
    outs = outs + [None] * (len(keep) - len(outs))
    via = ["stdin"] * len(keep)
    narg = min(6, len(keep))
    for a, _ in keep[:narg]:
        ra = run(base + [a] + durs, cpu=10, wall=60)
        sh.procs += 1
        sh.check_san(ra, "san", "zoneadd:%s" % zone)
        outs.append(ra.out.decode("latin-1").rstrip("\n"))
        via.append("arg")
    unit = "y" if all(d.endswith("y") for d in durs) else "mo" if all(d.endswith("mo") for d in durs) else "mixed"
    for (a, want), got, how in zip(keep + keep[:narg], outs, via):
        c = ("zone-wallclock", how, unit, "clamped" if a[8:10] != want[8:10] else "kept", zone, len(durs))
        if got == want:
            sh.ok("zoneadd", c)
        else:
            sh.bad("zoneadd", "zoneadd:%s:%s:%s:%s" % (how, unit, c[3], "day" if (got or "")[:10] != want[:10] else "time"),
                   "dadd --from-zone %s --zone %s %s %s -> %r, in the zone's wall clock that is %s" %
                   (zone, zone, a, " ".join(durs), got, want),
                   dict(argv=argv if how == "stdin" else base + [a] + durs, input=a if how == "stdin" else None,
                        expected=want, observed=got), cls=c)
    return sh


def _dispatch(t):
    if t[0] == "zone":
        return zone_task(t[1])
    if t[0] == "dseqc":
        return dseqc_task(t[1])
    return dseq_task(t[1]) if t[0] == "dseq" else addsweep.add_task(t[1])


def main(tier, seed):
    ctx = core.Ctx("C04", tier, seed)
    bindir = ctx.bin("san")
    rng = ctx.rng
    quick = tier == "quick"
    # start days: dom in {1,15,28,29,30,31} of every month, plus the special week/count days
    ymd_days = []
    for y in range(1601, 4096):
        for m in range(1, 13):
            for d in (1, 15, 28, 29, 30, 31):
                if d <= cal.mdays(y, m):
                    ymd_days.append(date(y, m, d).toordinal())
    alld = range(cal.ORD_MIN, cal.ORD_MAX + 1)
    rnd = rng.sample(alld, 8000 if quick else 40000)
    sets = {}
    sets["ymd"] = sorted(set(rng.sample(ymd_days, 16000 if quick else len(ymd_days))) | set(rnd[:4000]))
    cand = rng.sample(alld, 60000 if quick else 200000)
    sets["ymcw"] = sorted(set(o for o in cand if cal.Day(o).cnt_mon >= 4)[:12000 if quick else None]) if False else \
        sorted([o for o in cand if cal.Day(o).cnt_mon >= 4][:12000 if quick else 40000] + rnd[:3000])
    sets["ywd"] = sorted([o for o in cand if cal.Day(o).iw >= 52][:6000 if quick else 20000] + rnd[:4000])
    sets["yd"] = sorted([date(y, 12, d).toordinal() for y in range(1601, 4096) for d in (30, 31)][::1 if not quick else 2]
                        + rnd[:4000])
    sets["bizda"] = sorted([o for o in cand if dur.is_bday(o) and dur.bday_index(o) >= 19][:8000 if quick else 25000]
                           + [o for o in rnd[:6000] if dur.is_bday(o)])
    sets["epoch"] = sorted(rng.sample(sets["ymd"], 4000 if quick else 12000))
    tasks = []
    for K, (fm, fy) in FN.items():
        S = sets[K]
        small = rng.sample(S, min(len(S), 2500 if quick else 8000))
        if fm:
            for n in MON_N:
                for s in (1, -1):
                    tasks.append(("add", (bindir, "C04", K, ["%+dmo" % (s * n)], pairs(K, S, fm, s * n, ctx), "mo")))
            if K == "ymd":
                for n in QTR_N:
                    for s in (1, -1):
                        tasks.append(("add", (bindir, "C04", K, ["%+dq" % (s * n)],
                                              pairs(K, S, fm, 3 * s * n, ctx), "q")))
            for _ in range(30 if quick else 300):
                a = rng.choice([1, -1]) * rng.randrange(1, 3000)
                b = rng.choice([1, -1]) * rng.randrange(1, 3000)
                pr = [(o, t) for o, t in pairs(K, small, fm if K != "epoch" else eager(fm, a, fm, b), a + b, ctx) if mid_ok(K, fm(o, a))]
                tasks.append(("add", (bindir, "C04", K, ["%+dmo" % a, "%+dmo" % b], pr, "compose-mo")))
                n = rng.choice([1, -1]) * rng.randrange(1, 20000)
                tasks.append(("add", (bindir, "C04", K, ["%+dmo" % n], pairs(K, small, fm, n, ctx), "mo-rand")))
        for n in YEAR_N:
            for s in (1, -1):
                tasks.append(("add", (bindir, "C04", K, ["%+dy" % (s * n)], pairs(K, S, fy, s * n, ctx), "y")))
        for _ in range(15 if quick else 150):
            a = rng.choice([1, -1]) * rng.randrange(1, 300)
            b = rng.choice([1, -1]) * rng.randrange(1, 300)
            pr = [(o, t) for o, t in pairs(K, small, fy if K != "epoch" else eager(fy, a, fy, b), a + b, ctx) if mid_ok(K, fy(o, a))]
            tasks.append(("add", (bindir, "C04", K, ["%+dy" % a, "%+dy" % b], pr, "compose-y")))
            if fm:
                pr = [(o, t) for o, t in pairs(K, small, fm if K != "epoch" else eager(fy, a, fm, b), 12 * a + b, ctx) if mid_ok(K, fm(o, 12 * a))]
                tasks.append(("add", (bindir, "C04", K, ["%+dy" % a, "%+dmo" % b], pr, "compose-y-mo")))
            if K in ("ymd", "ymcw", "ywd", "yd"):
                # a day or week step behind the year (month) step counts from the clamped date
                nd = rng.choice([1, -1]) * rng.choice([1, 1, 2, 7, 30])
                u, per = rng.choice([("d", 1), ("d", 1), ("w", 7)])
                f1, a1, d1 = (fy, a, "%+dy" % a) if not fm or rng.random() < .5 else (fm, b, "%+dmo" % b)
                pr = []
                for o in small:
                    m = f1(o, a1)
                    if m is not None and dur.in_range(m) and dur.in_range(m + nd * per):
                        pr.append((o, m + nd * per))
                tasks.append(("add", (bindir, "C04", K, [d1, "%+d%s" % (nd, u)], pr, "then-" + u)))
    for _ in range(300 if quick else 5000):
        o = rng.choice(ymd_days if rng.random() < .8 else rnd)
        tasks.append(("dseq", (bindir, o, rng.choice([1, 1, 1, 2, 3, 5, 12, 13]), rng.randrange(2, 60))))
    # the same steps with the result printed in ANOTHER calendar: the lazy
    # clamp must have happened before any conversion
    XO = {"ymd": ["ywd", "yd", "ymcw", "ldn"], "ymcw": ["ymd", "ywd"], "bizda": ["ymd"], "ywd": ["ymd", "yd"],
          "yd": ["ymd", "ywd"], "epoch": [None]}
    cross = []
    for i, t in enumerate(tasks):
        if t[0] == "add":
            outs = XO[t[1][2]]
            if outs[i % len(outs)] is not None:
                cross.append(("add", t[1] + (outs[i % len(outs)],)))
    tasks += cross
    tasks = [t for t in tasks if t[0] in ("dseq", "dseqc") or t[1][4]]
    # date-times in a zone's wall clock
    zdays = [o for o in ymd_days if date(1975, 1, 1).toordinal() <= o <= date(2036, 12, 31).toordinal()]
    for zone in ZONES:
        for _ in range(6 if quick else 60):
            k = rng.randrange(4)
            if k == 0:
                n = rng.choice([1, -1]) * rng.choice(MON_N[:9])
                durs, nm = ["%+dmo" % n], n
            elif k == 1:
                n = rng.choice([1, -1]) * rng.choice([1, 2, 3, 4, 5, 10])
                durs, nm = ["%+dy" % n], 12 * n
            elif k == 2:
                a, b = rng.randrange(-5, 6), rng.randrange(-14, 15)
                durs, nm = ["%+dy" % a, "%+dmo" % b], 12 * a + b
            else:
                a, b = rng.randrange(-30, 31), rng.randrange(-30, 31)
                durs, nm = ["%+dmo" % a, "%+dmo" % b], a + b
            cases = [(rng.choice(zdays), rng.choice([0, 1800, 3600, 7199, 9000, 43200, 75600, 84600, 86399, rng.randrange(86400)]))
                     for _ in range(150)]
            tasks.append(("zone", (bindir, zone, durs, nm, cases)))
    # compound increments, day or week part first
    for _ in range(60 if quick else 1500):
        o = rng.choice(rnd)
        if cal.Day(o).d > 20:
            o -= 10
        sg = rng.choice([1, 1, -1])
        tasks.append(("dseqc", (bindir, o, sg * rng.choice([1, 1, 2, 3]), rng.choice(["d", "d", "w"]), sg * rng.choice([1, 1, 2, 12, 24]), rng.randrange(3, 9))))
    tasks.sort(key=lambda t: -(len(t[1][4]) if t[0] in ("add", "zone") else 50))
    for sh in core.pmap(_dispatch, tasks):
        ctx.merge(sh)
    ctx.rule = ("events = (calendar, start day, signed month/quarter/year count[s]) with dadd's output compared to "
                "the oracle (year/month moved by exactly N, day | weekday-count | business-day index | ISO week | "
                "day-of-year kept and clamped); start days: dom in {1,15,28..31} of every month, ymcw count>=4, "
                "ywd week>=52, yd Dec 30/31, bizda index>=19, plus random; N months +-%s, quarters +-%s, years "
                "+-%s, random; two-step compositions in one invocation, a day or week step behind a month/year step (it counts from the clamped date); dseq A Nmo B sequences, also anchored on B (--compute-from-last), and with compound increments (+1d1mo, -1w-1y: each element is the one before plus the increment); date-times in a zone's "
                "wall clock (dadd --from-zone Z --zone Z, 6 zones, operand on stdin lines and as the argument): the wall-clock "
                "date moves by N months/years (clamped), the time of day stays, judged where both readings exist exactly once. "
                "distinct_nontrivial = distinct (calendar, unit tag, sign, carry class, weekday)" %
                (MON_N, QTR_N, YEAR_N))
    ctx.assumptions = ["ywd and yd have no months: only +Ny is judged there (dadd leaves them unchanged for +Nmo)",
                       "lazy ultimo: steps given in ONE invocation compose; separate invocations do not"]
    ctx.min_evals = 100000
    return ctx.finish()


if __name__ == "__main__":
    sys.exit(main("quick", 1))
