"""C09 - parsing inverts formatting for every date/time format

value -> dt_strfdt(FMT) -> text -> dt_strpdt(text, FMT) -> value' through dutdrv (exact-size heap
strings), for format strings drawn from the specifier grammar restricted to specifier sets that
determine the value.  The read-back is compared as (day number, second of day), not as re-formatted
text.  Plus: default output of every calendar through the format-less parser, the same through the
dconv tool (argument and stdin line), and localised names for every prefix-free shipped locale.
"""
import sys

from .. import core
from ..core import Shard, run, drive, req, res_replay, align_lines
from ..oracle import cal, dur, loc

SEPS = [" ", "-", "/", ".", ":", ",", " x ", "\t", "|", "%%", "%n", "%t", "ä", "€", "T", "__"]
# fields the PARSER treats as fixed width (the printer's %u/%w/%c are read greedily and need a separator)
FIXED_DATE = {"%Y": 4, "%m": 2, "%d": 2, "%j": 3, "%G": 4, "%V": 2, "%H": 2, "%M": 2, "%S": 2,
              "%I": 2, "%0d": 2, "%0m": 2}


def date_template(rng):
    """-> (list of specifiers, class, needs) ; the specifiers together determine the day"""
    k = rng.randrange(9)
    if k == 0:
        return ["%F"], "F", None
    if k == 1:
        m = rng.choice(["%m", "%m", "%b", "%B", "%_b", "%Om", "%mth", "%0m", "%-m", "%h", "% m"])
        d = rng.choice(["%d", "%d", "%dth", "%Od", "%0d", "%-d", "% d"])
        y = rng.choice(["%Y", "%Y", "%Y", "% Y", "%-Y", "%0Y", "%OY"])
        return [y, m, d], "Ymd" + ("-spacepad" if "% " in y + m + d else "") + ("-romY" if y == "%OY" else ""), None
    if k == 2:
        y = rng.choice(["%Y", "%Y", "% Y", "%-Y"])
        j = rng.choice(["%j", "%D", "%j", "% j", "%-j", "%0j", "%jth"])
        return [y, j], "Yj" + ("-pad" if y + j != "%Y" + j[:1] + j[-1:] or len(j) > 2 else ""), None
    if k == 3:
        wd = rng.choice(["%u", "%a", "%A", "%_a"])
        return ["%G", rng.choice(["%V", "%V", "% V", "%-V"]), wd], "GVu", None
    if k == 4:
        return ["%Y", rng.choice(["%m", "%b", "%B"]), rng.choice(["%c", "%c", "% c", "%-c"]), rng.choice(["%w", "%u", "%a", "%A"])], "Ymcw", None
    if k == 5:
        return ["%s"], "s", None
    if k == 6:
        return ["%Y", "%m", "%db"], "Ymdb", "bday"
    if k == 7:
        x = rng.choice(["%a", "%A", "%_a", "%j", "%V"])
        return ["%Y", "%m", "%d", x], "Ymd+" + x[1:], None
    return ["%Y", rng.choice(["%U", "%W", "% U", "% W", "%-U"]), rng.choice(["%w", "%u", "%a"])], "YUw", None


def time_template(rng):
    k = rng.randrange(4)
    if k == 0:
        return ["%T"], "T"
    if k == 1:
        p_ = rng.choice(["%", "%", "% ", "%-"])
        return [p_ + "H", p_ + "M", p_ + "S"], "HMS"
    if k == 2:
        return ["%I", "%M", "%S", rng.choice(["%p", "%P"])], "IMSp"
    return ["%H", "%M", "%S", "%N"], "HMSN"


def mkformat(rng):
    """-> (format, class, needs_time, needs)"""
    ds, dcls, needs = date_template(rng)
    with_time = rng.random() < .45 and dcls != "s"
    specs = ds[:]
    if rng.random() < .4 and len(specs) > 1 and dcls not in ("F",):
        rng.shuffle(specs)
    tcls = "-"
    if with_time:
        ts, tcls = time_template(rng)
        if rng.random() < .3:
            rng.shuffle(ts)
        specs = specs + ts if rng.random() < .8 else ts + specs
    out = []
    sepcls = set()
    for i, s in enumerate(specs):
        out.append(s)
        if i < len(specs) - 1:
            a, b = s, specs[i + 1]
            # no separator only between two fixed-width numeric fields
            if a in FIXED_DATE and b in FIXED_DATE and rng.random() < .15:
                sepcls.add("none")
                continue
            sp = rng.choice(SEPS)
            # a name followed by a letter separator would be ambiguous
            if sp[0].isalpha() or sp in ("ä", "T"):
                if not (a in FIXED_DATE and b in FIXED_DATE):
                    sp = rng.choice([" ", "-", "/", "|"])
            out.append(sp)
            sepcls.add("lit" if sp.strip("%nt") else "escape")
    if rng.random() < .2:
        out.insert(0, rng.choice(["on ", "[", "%%", "€"]))
        out.append(rng.choice(["", "]", " h", "%n"]))
    return "".join(out), dcls + "/" + tcls, with_time, needs


def rt_task(task):
    bindir, seed, nfmt, nval = task
    import random
    rng = random.Random(seed)
    sh = Shard()
    bnd = cal.boundary_ordinals(7)
    reqs, meta = [], []
    for _ in range(nfmt):
        fmt, fcls, wt, needs = mkformat(rng)
        for _ in range(nval):
            o = rng.choice(bnd) if rng.random() < .6 else rng.randrange(cal.ORD_MIN, cal.ORD_MAX - 700)
            o = min(o, cal.ORD_MAX - 700)
            if needs == "bday" and not dur.is_bday(o):
                o += 2 if (o - 1) % 7 == 5 else 1 if (o - 1) % 7 == 6 else 0
            sod = rng.choice([0, 1, 43199, 43200, 46800, 86399, rng.randrange(86400)]) if wt else None
            rep = rng.choice(["ymd", "ymd", "ywd", "ymcw", "yd", "daisy"]) if not fcls.startswith("s") else rng.choice(["sexy", "ymd"])
            if "%O" in fmt and rep == "ymcw":
                rep = "ymd"     # Roman numerals are only implemented for values printed through ymd
            if rep == "sexy" or (fcls.startswith("s/") and sod is None):
                # epoch seconds carry a time of day: minute/hour borrows show at hh:59:ss and 23:59:ss before 1970
                sod = sod if sod is not None else rng.choice([0, 1, 59, 3541, 3599, 3600, 43199, 86341, 86399,
                                                               rng.randrange(24) * 3600 + 3540 + rng.randrange(1, 60),
                                                               rng.randrange(86400)])
            dz = o - cal.ORD_MIN + 1
            reqs.append(req("R", rep, str(dz), None if sod is None else str(sod), fmt, "256"))
            meta.append((fmt, fcls, rep, o, sod))
    ans, deaths = drive(bindir / "dutdrv", reqs, sh, cpu=30, wall=120)
    for ix, r in deaths:
        sh.bad("roundtrip", "rt:died:%s" % (r.san_kind() or r.sig or r.rc), "dutdrv died on %s" % (reqs[ix][:200] if ix >= 0 else "?"),
               dict(stdin=reqs[ix] if ix >= 0 else "", stderr=core.san_excerpt(r.err)))
    for a, (fmt, fcls, rep, o, sod), rq in zip(ans, meta, reqs):
        if a is None:
            continue
        D = cal.Day(o)
        vcls = D.cls()
        c = (fcls, rep, "dt" if sod is not None else "d")
        parts = a.split()
        text = bytes.fromhex(parts[2]).decode("utf-8", "replace") if len(parts) > 2 and parts[2] != "-" else ""
        what = "value %s%s held as %s, format %r -> text %r" % (D.ymd(), "" if sod is None else "T%05d" % sod, rep, fmt, text)
        sigb = "rt:%s:%s" % (fcls, "dt" if sod is not None else "d")
        if parts[0] == "UNK":
            sh.bad("roundtrip", sigb + ":unparsable", what + " -> cannot be parsed back",
                   dict(stdin=rq, text=text), cls=c)
            continue
        if parts[0] != "OK":
            sh.bad("roundtrip", sigb + ":" + parts[0].lower(), what + " -> " + a[:80], dict(stdin=rq), cls=c)
            continue
        n = int(parts[1])
        consumed = int(parts[3])
        kind = parts[4]
        if kind.startswith("sexy"):
            ep = int(parts[5])
            bo, bs = ep // 86400 + cal.ORD_UNIX, ep % 86400
        else:
            bd = int(parts[5])
            bo = bd + cal.ORD_MIN - 1 if bd >= 0 else None
            bs = int(parts[6]) if parts[6] != "-1" else None
        want_s = sod if sod is not None else (0 if kind.startswith("sexy") else None)
        if consumed != n:
            sh.bad("roundtrip", sigb + ":not-all-consumed", what + " -> parser consumed %d of %d bytes" % (consumed, n),
                   dict(stdin=rq, text=text), cls=c)
        elif bo != o:
            sh.bad("roundtrip", sigb + ":wrong-day", what + " -> parsed back as %s" %
                   (cal.Day(bo).ymd() if bo and cal.ORD_MIN <= bo <= cal.ORD_MAX else bo), dict(stdin=rq, text=text), cls=c)
        elif (bs if bs is not None else None) != want_s and not (want_s is None and bs in (None, 0)):
            sh.bad("roundtrip", sigb + ":wrong-time", what + " -> time parsed back as %s" % bs, dict(stdin=rq, text=text), cls=c)
        else:
            sh.ok("roundtrip", c + (vcls,))
    if ans and ans[0]:
        sh.sample(dict(request=reqs[0], answer=ans[0][:100]), cap=1)
    return sh


def default_task(task):
    """default output of every calendar is accepted back by the format-less parser (driver and tool)"""
    bindir, ords = task
    sh = Shard()
    reqs, meta = [], []
    for o in ords:
        for rep in ("ymd", "ywd", "ymcw", "yd", "daisy"):
            for sod in (None, 45296):
                reqs.append(req("R", rep, str(o - cal.ORD_MIN + 1), None if sod is None else str(sod), None, "64"))
                meta.append((rep, o, sod))
    ans, deaths = drive(bindir / "dutdrv", reqs, sh, cpu=30, wall=120)
    for ix, r in deaths:
        sh.bad("default", "default:died", "dutdrv died on %s" % (reqs[ix] if ix >= 0 else "?"), dict(stderr=core.san_excerpt(r.err)))
    for a, (rep, o, sod) in zip(ans, meta):
        if a is None:
            continue
        parts = a.split()
        c = ("default", rep, "dt" if sod is not None else "d")
        text = bytes.fromhex(parts[2]).decode("latin-1") if len(parts) > 2 and parts[2] != "-" else ""
        ok = parts[0] == "OK" and int(parts[3]) == int(parts[1]) and int(parts[5]) == o - cal.ORD_MIN + 1 and \
            (sod is None or int(parts[6]) == sod)
        if ok:
            sh.ok("default", c)
        else:
            sh.bad("default", "default:%s:%s" % (rep, "dt" if sod is not None else "d"),
                   "default text %r of %s (held as %s) read back as %s" % (text, cal.Day(o).ymd(), rep, a[:80]),
                   dict(request=reqs[0]), cls=c)
    # the same through the tool: argument and stdin line
    for cname in ("ymd", "ywd", "ymcw", "yd"):
        days = [cal.Day(o) for o in ords]
        src = [d.ymd() for d in days]
        r = run([str(bindir / "dconv"), "-f", cname], stdin=("\n".join(src) + "\n").encode(), cpu=30, wall=120)
        sh.procs += 1
        texts, _ = align_lines(src, r)
        tx = [t for t in texts if t]
        r2 = run([str(bindir / "dconv"), "-f", "%F"], stdin=("\n".join(tx) + "\n").encode(), cpu=30, wall=120)
        sh.procs += 1
        back, _ = align_lines(tx, r2)
        r3 = run([str(bindir / "dconv"), "-f", "%F", "--"] + tx[:400], cpu=30, wall=120)
        sh.procs += 1
        back3, _ = align_lines(tx[:400], r3)
        for i, (s, b) in enumerate(zip(src, back)):
            c = ("default-tool", cname, "stdin")
            if s == b:
                sh.ok("default", c)
            else:
                sh.bad("default", "default-tool:%s:stdin" % cname, "dconv -f %s %s = %r, read back from a stdin line as %r" %
                       (cname, s, tx[i] if i < len(tx) else None, b), dict(argv=["dconv", "-f", "%F"], input=tx[i] if i < len(tx) else ""), cls=c)
        for i, (s, b) in enumerate(zip(src[:400], back3)):
            c = ("default-tool", cname, "arg")
            if s == b:
                sh.ok("default", c)
            else:
                sh.bad("default", "default-tool:%s:arg" % cname, "dconv -f %s %s = %r, read back as an argument as %r" %
                       (cname, s, tx[i], b), dict(argv=["dconv", "-f", "%F", "--", tx[i]]), cls=c)
    return sh


def locale_task(task):
    """names out with --locale L, back in with --from-locale L"""
    bindir, lname, ords = task
    sh = Shard()
    days = [cal.Day(o) for o in ords]
    src = [d.ymd() for d in days]
    for fmt in ("%A, %d %B %Y", "%a %d %b %Y"):
        r = run([str(bindir / "dconv"), "--locale", lname, "-f", fmt], stdin=("\n".join(src) + "\n").encode(), cpu=30, wall=120)
        sh.procs += 1
        if sh.check_san(r, "locale", "locale:print:san"):
            continue
        texts, _ = align_lines(src, r)
        tx = [t if t is not None else "" for t in texts]
        back = []
        for i in range(0, len(tx), 300):
            # the texts are the tool's own bytes (UTF-8 names): hand them back byte for byte
            r2 = run([str(bindir / "dconv"), "--from-locale", lname, "-i", fmt, "-f", "%F", "--"] +
                     [t.encode("latin-1") for t in tx[i:i + 300]], cpu=30, wall=120)
            sh.procs += 1
            if sh.check_san(r2, "locale", "locale:parse:san"):
                back += [None] * len(tx[i:i + 300])
                continue
            b, _ = align_lines(tx[i:i + 300], r2)
            back += b + [None] * (len(tx[i:i + 300]) - len(b))
        # the same texts as stdin lines: there the scanner has to find the name by its length range in that locale
        r3 = run([str(bindir / "dconv"), "--from-locale", lname, "-i", fmt, "-f", "%F"],
                 stdin=b"\n".join(t.encode("latin-1") for t in tx) + b"\n", cpu=30, wall=120)
        sh.procs += 1
        if not sh.check_san(r3, "locale", "locale:parse-stdin:san"):
            b3, _ = align_lines([t.encode("latin-1") for t in tx], r3)
            for s, t, b in zip(src, tx, b3 + [None] * (len(tx) - len(b3))):
                c = ("locale-stdin", "long" if "%A" in fmt else "abbr")
                if s == b:
                    sh.ok("locale", c)
                else:
                    sh.bad("locale", "locale-stdin:%s:%s" % (lname, c[1]), "locale %s: %s printed as %r, read back from a stdin line as %r" %
                           (lname, s, t.encode("latin-1").decode("utf-8", "replace"), b),
                           dict(argv=["dconv", "--from-locale", lname, "-i", fmt, "-f", "%F"], stdin=t, expected=s, observed=b), cls=c)
        for s, t, b in zip(src, tx, back):
            c = ("locale", "long" if "%A" in fmt else "abbr")
            if s == b:
                sh.ok("locale", c)
            else:
                sh.bad("locale", "locale:%s:%s" % (lname, c[1]), "locale %s: %s printed as %r, read back as %r" %
                       (lname, s, t.encode("latin-1").decode("utf-8", "replace"), b),
                       dict(argv=["dconv", "--from-locale", lname, "-i", fmt, "-f", "%F", "--", t], expected=s, observed=b), cls=c)
    sh.sample(dict(locale=lname, example=tx[0] if tx else None), cap=1)
    return sh


def _dispatch(t):
    return {"rt": rt_task, "default": default_task, "locale": locale_task}[t[0]](t[1])


def main(tier, seed):
    ctx = core.Ctx("C09", tier, seed)
    bindir = ctx.bin("san")
    rng = ctx.rng
    quick = tier == "quick"
    tasks = []
    for i in range(192 if quick else 1280):
        tasks.append(("rt", (bindir, seed * 1000003 + i, 100 if quick else 320, 40)))
    bnd = cal.boundary_ordinals(3)
    bnd = [o for o in bnd if o < cal.ORD_MAX - 700]
    for i in range(8 if quick else 64):
        tasks.append(("default", (bindir, rng.sample(bnd, 600))))
    L = loc.load()
    names = sorted(n for n, v in L.items() if loc.usable(v))
    pick = names if not quick else rng.sample(names, 40) + [n for n in ("de_DE", "fr_FR", "ru_RU", "ja_JP", "el_GR") if n in names]
    base = (1601 - 1) * 0
    from datetime import date
    o0 = date(2021, 1, 4).toordinal()
    ldays = [o0 + k for k in range(0, 370, 1 if not quick else 9)] + [date(2000, 2, 29).toordinal()]
    for n in pick:
        tasks.append(("locale", (bindir, n, ldays)))
    for sh in core.pmap(_dispatch, tasks):
        ctx.merge(sh)
    ctx.rule = ("events = (format, value, held representation): %d seeded formats from the grammar {date part: %%F | Y m d | Y j | "
                "G V u | Y m c w | %%s | Y m db | Y m d+redundant field | Y U/W w} x {no time | %%T | H M S | I M S p | H M S N} "
                "with numeric/named/one-letter/ordinal/Roman/padded variants, 16 literal separators incl. none between "
                "fixed-width fields, %%%% %%n %%t and multibyte UTF-8; 40 boundary-biased values each, held as ymd/ywd/ymcw/"
                "yd/daisy/epoch; formatted by the real dt_strfdt and parsed back by the real dt_strpdt; verdict on (day, "
                "second) and on consumed == length; default outputs of 5 representations through the format-less parser "
                "(driver, dconv argument, dconv stdin line); %d prefix-free locales (of %d shipped, %d prefix-free) "
                "--locale out / --from-locale in. distinct_nontrivial = distinct (format class, representation, kind, "
                "value class)" % ((192 if quick else 1280) * (100 if quick else 320), len(pick), len(L), len(names)))
    ctx.cov["locales_prefix_free"] = len(names)
    ctx.assumptions = ["%y/%_y/%g are excluded from the determining sets (century window depends on the base; C20 covers --base)",
                       "adjacent variable-width numeric fields are ambiguous by construction and not generated",
                       "Roman numerals only in the month/day position of Y-m-d formats"]
    ctx.min_evals = 50000
    return ctx.finish()


if __name__ == "__main__":
    sys.exit(main("quick", 1))
