"""C18 - stream filters are transparent and independent of input chunking"""
import os
import sys
import tempfile

from .. import core
from ..core import Shard, run, res_replay
from ..oracle import cal

TMP = os.path.join(os.path.dirname(os.path.dirname(os.path.dirname(os.path.abspath(__file__)))), ".build", "tmp")
# junk never contains digits, so nothing but the planted dates can be taken for a date
JUNK = [bytes([c]) for c in range(0, 256) if c not in (10, 13) and not (48 <= c <= 57)]
WORDS = [b"alpha", b"beta;", b"log:", b"--", b"x", b"(see", b"ok)", b"\xc3\xa4\xc3\xb6", b"\t", b"#", b"=>", b"note", b"T", b"b", b"W"]
LEFT = [b" ", b"(", b"[", b"<", b"=", b",", b";", b"\t", b":", b"'", b'"']
RIGHT = [b" ", b")", b"]", b">", b",", b";", b".", b"\t", b"'", b'"', b" b"]


def nxt_monday(o):
    while (o - 1) % 7 != 0:
        o += 1
    return o


MODES = {
    "dconv": (["dconv", "-S", "-f", "%d.%m.%Y"], lambda o: ("%02d.%02d.%04d" % (cal.Day(o).d, cal.Day(o).m, cal.Day(o).y)).encode()),
    "dadd": (["dadd", "-S", "+1d"], lambda o: cal.Day(o + 1).ymd().encode()),
    "dround": (["dround", "-S", "Mon"], lambda o: cal.Day(nxt_monday(o)).ymd().encode()),
    "ident": (["dconv", "-S"], lambda o: cal.Day(o).ymd().encode()),
    # not a sed mode, but the same reader: lines with a date pass unchanged, the others are dropped
    "dgrep": (["dgrep", ">=1601-01-01"], lambda o: cal.Day(o).ymd().encode()),
    # an input format of digits only: there is no needle character to look for, the first run of digits of a line is tried
    "digits": (["dconv", "-S", "-i", "%Y%m%d", "-f", "%F"], lambda o: cal.Day(o).ymd().encode()),
}


def junk(rng, n, hostile):
    if hostile:
        return b"".join(rng.choice(JUNK) for _ in range(n))
    out = []
    ln = 0
    while ln < n:
        w = rng.choice(WORDS)
        out.append(w)
        out.append(b" ")
        ln += len(w) + 1
    return b"".join(out)[:n]


# fragments that look like the beginning of a date/time but are none: they must pass through untouched
NEAR = [b"12:xx", b"7:", b"12:", b"2000-", b":30", b"T12", b"1-2", b"--", b"20:", b"24:x"]


def mk_line(rng, conv, kind, mode=None):
    """-> (input line bytes without terminator, expected output line bytes, number of dates)"""
    if kind == "empty":
        return b"", b"", 0
    srcf = lambda o_: cal.Day(o_).ymd().encode()
    if mode == "digits":
        # one date per line and no digit in front of it
        kind = {"near": "date", "two": "date", "zoned": "date"}.get(kind, kind)
        srcf = lambda o_: ("%04d%02d%02d" % (cal.Day(o_).y, cal.Day(o_).m, cal.Day(o_).d)).encode()
    if kind == "zoned" and mode in ("ident", "dconv", "dadd", "dgrep"):
        # a stamp with a numeric UTC offset: the offset belongs to the stamp (the instant is printed in UTC), the bytes
        # behind it - a colon in particular - do not
        o = rng.randrange(cal.ORD_MIN + 400, cal.ORD_MAX - 1500)
        sod = rng.choice([0, 900, 43200, 84600, 86399, rng.randrange(86400)])
        offm = rng.choice([1, -1]) * rng.choice([0, 60, 90, 150, 330, 345, 600, 840])
        sgn = "-" if offm < 0 or (offm == 0 and rng.random() < .3) else "+"
        ztxt = ("%s%02d:%02d" if rng.random() < .6 else "%s%02d%02d") % (sgn, abs(offm) // 60, abs(offm) % 60)
        hms_ = lambda x: "%02d:%02d:%02d" % (x // 3600, x // 60 % 60, x % 60)
        u = (o * 86400 + sod) - offm * 60
        o2, s2 = u // 86400, u % 86400
        pre = rng.choice([b"", b"see ", b"[", b"log: "])
        post = rng.choice([b": link up", b":", b" x", b":x", b")", b"", b"; next", b":-"])
        src = pre + (cal.Day(o).ymd() + "T" + hms_(sod) + ztxt).encode() + post
        if mode == "dgrep":
            return src, src, 1
        res = {"ident": lambda: cal.Day(o2).ymd() + "T" + hms_(s2), "dadd": lambda: cal.Day(o2 + 1).ymd() + "T" + hms_(s2),
               "dconv": lambda: conv(o2).decode()}[mode]()
        return src, pre + res.encode() + post, 1
    if kind == "zoned":
        kind = "date"
    if kind == "near":
        # a date followed by blank + near-miss text: only the date may be touched
        o = rng.randrange(cal.ORD_MIN + 400, cal.ORD_MAX - 1500)
        nm = rng.choice(NEAR)
        pre, post = rng.choice([b"", b"see ", b"("]), rng.choice([b"", b" end", b")"])
        if rng.random() < .5:
            return pre + cal.Day(o).ymd().encode() + b" " + nm + post, pre + conv(o) + b" " + nm + post, 1
        return pre + b"at " + nm + b" on " + cal.Day(o).ymd().encode() + post, pre + b"at " + nm + b" on " + conv(o) + post, 1
    if kind == "junk":
        j = junk(rng, rng.choice([1, 3, 20, 80, 300]), rng.random() < .4)
        return j, j, 0
    nd = 1 if kind != "two" else rng.choice([2, 2, 3, 5])
    i_parts, o_parts = [], []
    for k in range(nd):
        o = rng.randrange(cal.ORD_MIN + 400, cal.ORD_MAX - 1500)
        pre = junk(rng, rng.choice([0, 0, 2, 10, 40]), rng.random() < .2) + (rng.choice(LEFT) if rng.random() < .8 or k else b"")
        if pre and (pre[-1:].isalnum() or pre[-1:] in b"-+:/."):
            pre += b" "
        post = rng.choice(RIGHT)
        i_parts += [pre, srcf(o), post]
        o_parts += [pre, conv(o), post]
    tail = junk(rng, rng.choice([0, 0, 5, 30]), rng.random() < .2)
    if not tail and rng.random() < .5:
        # the date ends the line
        i_parts[-1] = o_parts[-1] = b""
    return b"".join(i_parts) + tail, b"".join(o_parts) + tail, nd


def mk_stream(rng, conv, shape, mode=None):
    """-> (input bytes, expected output bytes, info)"""
    lines = []
    if mode == "digits" and shape not in ("small", "many-lines"):
        shape = "small"
    if shape == "small":
        n = rng.choice([1, 2, 5, 20, 60])
        kinds = [rng.choice(["date", "date", "two", "junk", "empty", "near", "zoned"]) for _ in range(n)]
        lines = [mk_line(rng, conv, k, mode) for k in kinds]
    elif shape == "chunk-edge":
        # lines whose ends, dates and CRs fall next to multiples of the 4096 byte read size
        tot = 0
        for _ in range(rng.choice([2, 4, 9])):
            i, o, nd = mk_line(rng, conv, rng.choice(["date", "two"]))
            tgt = 4096 * rng.choice([1, 1, 2, 3]) + rng.choice([-12, -11, -10, -5, -2, -1, 0, 1, 2, 3])
            pad = max(0, tgt - (tot + len(i) + 1) % 4096 - (tot + len(i) + 1) // 4096 * 0)
            pad = (tgt - tot - len(i) - 1) % 4096
            j = junk(rng, pad, False)
            if j and (j[-1:].isalnum() or j[-1:] in b"-+:/."):
                j = j[:-1] + b" "
            lines.append((j + i, j + o, nd))
            tot += len(j) + len(i) + 1
    elif shape == "long-lines":
        for _ in range(rng.choice([1, 3, 8])):
            i, o, nd = mk_line(rng, conv, rng.choice(["date", "two", "junk"]))
            j = junk(rng, rng.choice([1000, 4090, 4096, 5000, 9000, 70000]), False)
            if j and (j[-1:].isalnum() or j[-1:] in b"-+:/."):
                j = j[:-1] + b" "
            lines.append((j + i, j + o, nd))
    elif shape == "trunc-tail":
        # the stream ends in the middle of a date, with and without full windows in front; equal-length lines make the
        # window close exactly on a read boundary, so that stale bytes of earlier lines sit right behind the tail
        n = rng.choice([0, 3, 16384, 16384, 32768, 20000])
        w = rng.choice([23, 23, 16, 64])
        body = (b"x" * (w - 10) + b"1 yyyyyyy")[:w - 1]
        lines = [(body, body, 0)] * n
        o = rng.randrange(cal.ORD_MIN + 400, cal.ORD_MAX - 1500)
        full = cal.Day(o).ymd().encode()
        cut = rng.choice([5, 7, 8, 9])
        lines.append((b"tail " + full[:cut], None, 0))
    elif shape.startswith("huge-line"):
        # one line of several MiB behind a few short ones: the left-over moved to the front is larger than what was consumed
        pad = junk(rng, 3990, False)
        if pad[-1:].isalnum() or pad[-1:] in b"-+:/.":
            pad = pad[:-1] + b" "
        var = int(shape.split(":")[1]) % 5 if ":" in shape else rng.randrange(5)
        npre, hlen = [(500, 15 << 20), (1200, 14 << 20), (3, 9 << 20), (0, 3 << 20), (0, 16750000)][var]
        for _ in range(npre):
            i, o, nd = mk_line(rng, conv, rng.choice(["date", "junk"]))
            lines.append((pad + i, pad + o, nd))
        i, o, nd = mk_line(rng, conv, "date")
        j = (junk(rng, 4000, False) * (hlen // 4000))
        if j[-1:].isalnum() or j[-1:] in b"-+:/.":
            j = j[:-1] + b" "
        lines.append((j + i, j + o, nd))
        for _ in range(rng.choice([0, 2])):
            lines.append(mk_line(rng, conv, "date"))
    elif shape == "many-lines":
        # beyond the 16384 line window
        n = rng.choice([16383, 16384, 16385, 20000, 40000])
        base = [mk_line(rng, conv, rng.choice(["date", "junk", "empty", "two"]), mode if mode == "digits" else None) for _ in range(50)]
        lines = [base[rng.randrange(50)] for _ in range(n)]
    elif shape == "many-bytes":
        # beyond the 16 MiB window
        base = []
        for _ in range(12):
            i, o, nd = mk_line(rng, conv, rng.choice(["date", "two"]))
            j = junk(rng, rng.choice([900, 1000, 1023, 1024, 1100, 3000]), False)
            if j and (j[-1:].isalnum() or j[-1:] in b"-+:/."):
                j = j[:-1] + b" "
            base.append((j + i, j + o, nd))
        tot = 0
        while tot < (17 << 20):
            l = base[rng.randrange(12)]
            lines.append(l)
            tot += len(l[0]) + 1
    crlf = rng.random() < .3
    mixed = rng.random() < .15
    inp, out = [], []
    for idx, (i, o, nd) in enumerate(lines):
        term = b"\r\n" if (crlf and not mixed) or (mixed and rng.random() < .5) else b"\n"
        inp.append(i + term)
        # a CR in front of the line feed is dropped by the reader (documented behaviour of the chunker)
        if o is None:
            out = None
        elif out is not None and (mode != "dgrep" or nd):
            out.append(o + b"\n")
    final_nl = rng.random() < .75 and shape != "trunc-tail"
    if not final_nl and lines and not lines[-1][0]:
        # an empty last line without line feed is no line
        final_nl = True
    data = b"".join(inp)
    if not final_nl and data:
        data = data[:-1]
        if data.endswith(b"\r"):
            # a trailing CR without LF: keep the model simple, drop it
            data = data[:-1]
    info = dict(lines=len(lines), bytes=len(data), crlf=crlf or mixed, final_nl=final_nl, dates=sum(l[2] for l in lines))
    return data, (b"".join(out) if out is not None else None), info


def hazard_cuts(data, rng, limit=60):
    pos = set()
    for off in range(4096, min(len(data), 1 << 16), 4096):
        pos.update([off - 1, off, off + 1])
    nl = [i for i in range(min(len(data), 1 << 15)) if data[i] in (10, 13)]
    for i in rng.sample(nl, min(len(nl), 20)):
        pos.update([i, i + 1])
    for _ in range(10):
        pos.add(rng.randrange(len(data) + 1))
    pos = sorted(p for p in pos if 0 < p < len(data))
    if len(pos) > limit:
        pos = sorted(rng.sample(pos, limit))
    return pos


def run_piped(argv, data, cuts):
    """feed DATA through a pipe in pieces with short pauses -> (stdout, rc) or None (inconclusive)"""
    import subprocess
    import threading
    import time
    e = dict(core.BASE_ENV)
    e.update(core.SAN_ENV)
    try:
        p = subprocess.Popen([str(a) for a in argv], stdin=subprocess.PIPE, stdout=subprocess.PIPE, stderr=subprocess.PIPE, env=e)
    except OSError:
        return None

    def feed():
        try:
            last = 0
            for c in list(cuts) + [len(data)]:
                p.stdin.write(data[last:c])
                p.stdin.flush()
                last = c
                time.sleep(0.002)
            p.stdin.close()
        except (OSError, ValueError):
            pass
    t = threading.Thread(target=feed, daemon=True)
    t.start()
    try:
        out = p.stdout.read()
        p.stderr.read()
        rc = p.wait(timeout=120)
    except subprocess.TimeoutExpired:
        p.kill()
        return None
    t.join(5)
    return out, rc


def first_diff(a, b):
    n = min(len(a), len(b))
    for i in range(n):
        if a[i] != b[i]:
            return i
    return n


def regen_stream(seed, idx, shapes):
    import random
    rng = random.Random(seed * 6151 + idx)
    mode = rng.choice(list(MODES))
    argv0, conv = MODES[mode]
    shape = rng.choice(shapes)
    data, exp, info = mk_stream(rng, conv, shape, mode)
    return mode, shape, argv0, data, exp, info


def regen(rec):
    """for ./check replay: -> (argv0 list, stdin bytes, expected output bytes)"""
    g = rec["regen"]
    mode, shape, argv0, data, exp, info = regen_stream(g["seed"], g["idx"], g["shapes"])
    return argv0, data, exp


def stream_task(task):
    bindir, seed, n, shapes = task
    import random
    rng = random.Random(seed)
    sh = Shard()
    os.makedirs(TMP, exist_ok=True)
    for idx in range(n):
        # one generator per stream, so that a replay can rebuild stream IDX alone
        mode, shape, argv0, data, exp, info = regen_stream(seed, idx, shapes)
        rng = random.Random(seed * 9176 + idx * 31 + 7)
        if not data:
            continue
        regen = dict(module="c18", seed=seed, idx=idx, shapes=shapes)
        argv = [str(bindir / argv0[0])] + argv0[1:]
        fd, path = tempfile.mkstemp(dir=TMP, prefix="c18-")
        try:
            os.write(fd, data)
            os.close(fd)
            big = len(data) > (1 << 20)
            shape = shape.split(":")[0]
            cls0 = (mode, shape, "crlf" if info["crlf"] else "lf", "nl" if info["final_nl"] else "nonl")

            def once(sched):
                with open(path, "rb") as f:
                    r = run(argv, stdin=f, env={"VERIF_READ_SCHED": sched}, cpu=120, wall=600, max_out=len(data) * 2 + (1 << 20))
                sh.procs += 1
                return r
            base = once("all")
            if sh.check_san(base, "safety", "sed:%s:%s" % (mode, shape)):
                continue
            if exp is None:
                pass
            elif base.out == exp:
                sh.ok("transparent", cls0 + ("all",))
            else:
                i = first_diff(base.out, exp)
                what = "short" if len(base.out) < len(exp) and base.out == exp[:len(base.out)] else \
                    "long" if len(base.out) > len(exp) and exp == base.out[:len(exp)] else "differs"
                sh.bad("transparent", "sed:%s:%s:%s" % (mode, shape, what),
                       "%s over %d lines / %d bytes: output %s at byte %d of %d (model %d): %r vs %r" %
                       (" ".join(argv0), info["lines"], info["bytes"], what, i, len(base.out), len(exp), base.out[max(0, i - 20):i + 20],
                        exp[max(0, i - 20):i + 20]),
                       dict(argv=argv, regen=regen, shape=shape), cls=cls0)
                continue
            if not info["final_nl"]:
                # a missing final line feed changes nothing: the same stream with it must give the same output
                fd2, path2 = tempfile.mkstemp(dir=TMP, prefix="c18n-")
                try:
                    os.write(fd2, data + b"\n")
                    os.close(fd2)
                    with open(path2, "rb") as f:
                        r = run(argv, stdin=f, env={"VERIF_READ_SCHED": "all"}, cpu=120, wall=600, max_out=len(base.out) * 2 + (1 << 20))
                    sh.procs += 1
                finally:
                    os.unlink(path2)
                if not sh.check_san(r, "safety", "sed:%s:%s:final-lf" % (mode, shape)):
                    if r.out == base.out and r.rc == base.rc:
                        sh.ok("final-lf", cls0 + ("final-lf",))
                    else:
                        sh.bad("final-lf", "sed:%s:%s:final-lf" % (mode, shape),
                               "%s, %d bytes: output without the final line feed differs from the output with it at byte %d "
                               "(%d vs %d bytes, rc %s vs %s)" % (" ".join(argv0), len(data), first_diff(base.out, r.out), len(base.out),
                                                                 len(r.out), base.rc, r.rc),
                               dict(argv=argv, regen=regen, shape=shape), cls=cls0 + ("final-lf",))
            # the same bytes cut into other read() results
            scheds = ["rand:%d" % rng.randrange(1, 1 << 30), "k:%d" % rng.choice([1, 2, 3, 5, 7, 64, 1000, 4095])]
            if not big:
                scheds.append("cuts:" + ",".join(map(str, hazard_cuts(data, rng))))
                scheds.append("rand:%d" % rng.randrange(1, 1 << 30))
            else:
                scheds = scheds[:1] + ["k:%d" % rng.choice([1000, 4095, 4000])]
            for sc in scheds:
                r = once(sc)
                k = sc.split(":")[0]
                if sh.check_san(r, "safety", "sed:%s:%s:%s" % (mode, shape, k)):
                    continue
                if r.out == base.out and r.rc == base.rc:
                    sh.ok("chunking", cls0 + (k,))
                else:
                    i = first_diff(r.out, base.out)
                    sh.bad("chunking", "sed:%s:%s:sched-%s" % (mode, shape, k),
                           "%s, %d bytes: output under read schedule %s differs from one-read-per-4096 at byte %d (%d vs %d bytes, "
                           "rc %s vs %s)" % (" ".join(argv0), len(data), sc[:80], i, len(r.out), len(base.out), r.rc, base.rc),
                           dict(argv=argv, env={"VERIF_READ_SCHED": sc}, regen=regen, shape=shape), cls=cls0 + (k,))
            if not big:
                # a read() that fails after K bytes ends the input there: what had been read is processed like a stream of
                # exactly those K bytes, no byte of it is lost
                for kk in sorted(set([rng.randrange(1, len(data) + 1), len(data)] + rng.sample(hazard_cuts(data, rng) or [1], 1))):
                    if not 0 < kk <= len(data):
                        continue
                    with open(path, "rb") as f:
                        re_ = run(argv, stdin=f, env={"VERIF_READ_SCHED": "all", "VERIF_READ_ERR": str(kk)}, cpu=120, wall=600,
                                  max_out=len(data) * 2 + (1 << 20))
                    fd3, path3 = tempfile.mkstemp(dir=TMP, prefix="c18e-")
                    try:
                        os.write(fd3, data[:kk])
                        os.close(fd3)
                        with open(path3, "rb") as f:
                            rr = run(argv, stdin=f, env={"VERIF_READ_SCHED": "all"}, cpu=120, wall=600, max_out=len(data) * 2 + (1 << 20))
                    finally:
                        os.unlink(path3)
                    sh.procs += 2
                    if sh.check_san(re_, "safety", "sed:%s:%s:read-error" % (mode, shape)) or rr.san_kind():
                        continue
                    if re_.out == rr.out:
                        sh.ok("read-error", cls0 + ("read-error", "at-end" if kk == len(data) else "inside"))
                    else:
                        i = first_diff(re_.out, rr.out)
                        sh.bad("read-error", "sed:%s:%s:read-error:%s" % (mode, shape, "short" if len(re_.out) < len(rr.out) else "differs"),
                               "%s, read() fails after %d of %d bytes: output differs from the output for those %d bytes alone at byte "
                               "%d (%d vs %d bytes): %r vs %r" % (" ".join(argv0), kk, len(data), kk, i, len(re_.out), len(rr.out),
                                                                  re_.out[max(0, i - 20):i + 20], rr.out[max(0, i - 20):i + 20]),
                               dict(argv=argv, env={"VERIF_READ_SCHED": "all", "VERIF_READ_ERR": str(kk)}, regen=regen, shape=shape),
                               cls=cls0 + ("read-error",))
            if len(data) <= (1 << 16) and rng.random() < .5:
                # a real pipe fed in pieces with pauses: read() returns what has arrived
                cuts = hazard_cuts(data, rng, limit=12)
                r = run_piped(argv, data, cuts)
                sh.procs += 1
                if r is None:
                    sh.extra["inconclusive_pipe_runs"] += 1
                elif r[0] == base.out and r[1] == base.rc:
                    sh.ok("chunking", cls0 + ("pipe",))
                else:
                    sh.bad("chunking", "sed:%s:%s:sched-pipe" % (mode, shape),
                           "%s, %d bytes written to a pipe in %d pieces with pauses: output differs at byte %d" %
                           (" ".join(argv0), len(data), len(cuts) + 1, first_diff(r[0], base.out)),
                           dict(argv=argv, cuts=cuts, regen=regen, shape=shape), cls=cls0 + ("pipe",))
            sh.sample(dict(mode=mode, shape=shape, **info), cap=3)
        finally:
            try:
                os.unlink(path)
            except OSError:
                pass
    return sh


def main(tier, seed):
    ctx = core.Ctx("C18", tier, seed)
    bindir = ctx.bin("san")
    quick = tier == "quick"
    tasks = []
    for i in range(48 if quick else 320):
        tasks.append((bindir, seed * 611953 + i, 12 if quick else 30, ["small", "small", "chunk-edge", "chunk-edge", "long-lines"]))
    for i in range(8 if quick else 64):
        tasks.append((bindir, seed * 17 + 400000 + i, 2, ["trunc-tail"]))
    for i in range(12 if quick else 96):
        tasks.append((bindir, seed * 7 + 100000 + i, 1, ["many-lines"]))
    for i in range(4 if quick else 32):
        tasks.append((bindir, seed * 11 + 200000 + i, 1, ["many-bytes"]))
    for i in range(5 if quick else 25):
        tasks.append((bindir, seed * 13 + 300000 + i, 1, ["huge-line:%d" % i]))
    for sh in core.pmap(stream_task, tasks[::-1]):
        ctx.merge(sh)
    ctx.rule = ("events = one run of dconv -S -f, dconv -S, dadd -S +1d or dround -S Mon over a generated byte stream delivered from a "
                "file; 'transparent': the whole output equals the model (every line in order, planted dates replaced by the expected "
                "result, everything else byte for byte; junk holds any byte (NUL included) but digits, CR, LF; a CR before LF is dropped; the last "
                "line gets its line feed); 'chunking': the same stream under other read() schedules (1..4095 bytes per read, random "
                "sizes, cuts next to line ends, CRs and multiples of 4096, and a real pipe written in pieces with pauses) gives the same bytes and status as the baseline; shapes: "
                "small, line ends/dates at 4096 boundaries, lines of 1000..70000 bytes, 16383..40000 lines (line window), 17 MiB (byte "
                "window), one line of 3 MiB .. 16.75 MB (the window holds 16 MiB less one read), CRLF/mixed/no final line feed, a stream ending inside a date behind 0..32768 equal-length lines, near-miss fragments (12:xx, 7:, 2000-) next to dates, stamps with a numeric UTC offset followed by ':' or other bytes; 'read-error': a read() failing with EIO after K bytes (injected by the shim) gives the output of a stream of exactly those K bytes; 'final-lf': a stream without final line feed gives the output of the same stream with it; ASan/UBSan on the exact-size window + probe H4 (window offsets ordered, "
                "bytes out + held == bytes read) on every fill. distinct_nontrivial = distinct (tool, shape, line ends, final "
                "line feed, schedule kind)")
    ctx.assumptions = ["no single line exceeds the 16 MiB window (such a line is handed out in pieces)", "dates are planted between non-alphanumeric neighbours (2012-01-02b is a business-day spelling)",
                       "CRLF -> LF is the chunker's documented behaviour, not a violation"]
    ctx.min_evals = 800
    return ctx.finish()


if __name__ == "__main__":
    sys.exit(main("quick", 1))
