"""C17 - dategrep selects exactly the lines whose dates satisfy the expression"""
import sys

from .. import core
from ..core import Shard, run, res_replay
from ..oracle import cal

OPS = ["<", "<=", "=", ">=", ">", "!="]
WORDS = ["alpha", "beta", "file", "log:", "entry", "x", "--", "id", "note", "ok", "warn;", "#"]


def hms(s):
    return "%02d:%02d:%02d" % (s // 3600, s // 60 % 60, s % 60)


def cmp_op(op, a, b):
    return {"<": a < b, "<=": a <= b, "=": a == b, ">=": a >= b, ">": a > b, "!=": a != b}[op]


# ---------------------------------------------------------------------------
# expression trees: ("atom", kind, op, value, text) | ("not", t) | ("and", a, b) | ("or", a, b)
def rand_atom(rng, pool, with_time):
    k = rng.random()
    if k < .55:
        o, s = rng.choice(pool)
        op = rng.choice(OPS + [""])
        if with_time and rng.random() < .35:
            t = rng.choice([s, 0, 43200, 86399, rng.randrange(86400)])
            return ("atom", "time", op or "=", t, op + hms(t))
        if with_time and rng.random() < .5:
            return ("atom", "dt", op or "=", (o, s), op + cal.Day(o).ymd() + "T" + hms(s))
        return ("atom", "date", op or "=", o, op + cal.Day(o).ymd())
    o, _ = rng.choice(pool)
    D = cal.Day(o)
    op = rng.choice(OPS if rng.random() < .6 else ["="])
    f = rng.choice(["Y", "m", "d", "a", "A", "b", "B", "u", "j", "c", "V", "U", "W", "C"])
    if f in ("V", "U", "W", "C"):
        # week of the year in its four conventions (ISO, Sunday based, Monday based, plain count)
        cur = {"V": D.iw, "U": D.wk_U, "W": D.wk_W, "C": D.cnt_year}[f]
        v = rng.choice([cur, cur, 0, 1, 52, 53, rng.randrange(0, 54)])
        return ("atom", "wk" + f, op, v, "%%%s%s%s" % (f, op, rng.choice(["%d", "%02d"]) % v))
    if f == "Y":
        v = D.y + rng.choice([0, 0, 1, -1])
        return ("atom", "Y", op, v, "%%Y%s%d" % (op, v))
    if f == "m":
        v = rng.choice([D.m, rng.randrange(1, 13)])
        return ("atom", "m", op, v, "%%m%s%s" % (op, rng.choice(["%d", "%02d"]) % v))
    if f == "d":
        v = rng.choice([D.d, rng.randrange(1, 32)])
        return ("atom", "d", op, v, "%%d%s%s" % (op, rng.choice(["%d", "%02d"]) % v))
    if f == "j":
        v = rng.choice([D.yday, rng.randrange(1, 367)])
        return ("atom", "j", op, v, "%%j%s%d" % (op, v))
    if f == "c":
        v = rng.choice([D.cnt_mon, rng.randrange(1, 6)])
        return ("atom", "c", op, v, "%%c%s%02d" % (op, v))
    if f == "u":
        v = rng.choice([D.iwd, rng.randrange(1, 8)])
        return ("atom", "u", op, v, "%%u%s%s" % (op, rng.choice(["%d", "%02d"]) % v))
    if f in ("a", "A"):
        v = rng.choice([D.wd, rng.randrange(7)])
        op = rng.choice(["=", "=", "!="])
        return ("atom", "wd", op, v, '%%%s%s"%s"' % (f, op, (cal.WD_ABBR if f == "a" else cal.WD_LONG)[v]))
    v = rng.choice([D.m, rng.randrange(1, 13)])
    op = rng.choice(["=", "=", "!="])
    return ("atom", "m", op, v, '%%%s%s"%s"' % (f, op, (cal.MON_ABBR if f == "b" else cal.MON_LONG)[v - 1]))


def rand_tree(rng, pool, with_time, depth):
    if depth == 0 or rng.random() < .25:
        return rand_atom(rng, pool, with_time)
    k = rng.random()
    if k < .2:
        return ("not", rand_tree(rng, pool, with_time, depth - 1))
    if k < .6:
        return ("and", rand_tree(rng, pool, with_time, depth - 1), rand_tree(rng, pool, with_time, depth - 1))
    return ("or", rand_tree(rng, pool, with_time, depth - 1), rand_tree(rng, pool, with_time, depth - 1))


def shaped_tree(rng, pool, wt, shape):
    A = lambda: rand_atom(rng, pool, wt)
    if shape == "and-chain-left":
        t = A()
        for _ in range(rng.randrange(2, 6)):
            t = ("and", t, A())
        return t
    if shape == "and-chain-right":
        t = A()
        for _ in range(rng.randrange(2, 6)):
            t = ("and", A(), t)
        return t
    if shape == "or-chain-left":
        t = A()
        for _ in range(rng.randrange(2, 6)):
            t = ("or", t, A())
        return t
    if shape == "or-chain-right":
        t = A()
        for _ in range(rng.randrange(2, 6)):
            t = ("or", A(), t)
        return t
    if shape == "cnf":
        t = ("or", A(), A())
        for _ in range(rng.randrange(1, 4)):
            t = ("and", t, ("or", A(), A()))
        return t
    if shape == "negated-junction":
        return ("not", (rng.choice(["and", "or"]), A(), (rng.choice(["and", "or"]), A(), A())))
    if shape == "double-negation":
        return ("not", ("not", rand_tree(rng, pool, wt, 1)))
    if shape == "negated-atom":
        return ("not", A())
    if shape == "deep-and-over-or":
        return ("and", ("and", A(), ("or", A(), A())), A())
    if shape == "range":
        a, b = sorted(rng.sample(pool, 2))
        return ("and", ("atom", "date", ">=", a[0], ">=" + cal.Day(a[0]).ymd()), ("atom", "date", "<=", b[0], "<=" + cal.Day(b[0]).ymd()))
    return rand_tree(rng, pool, wt, 4)


SHAPES = ["and-chain-left", "and-chain-right", "or-chain-left", "or-chain-right", "cnf", "negated-junction", "double-negation",
          "negated-atom", "deep-and-over-or", "range", "random", "random", "random"]

PREC = {"or": 1, "and": 2, "not": 3, "atom": 4}


def render(rng, t, parent=0, style=None):
    """text with the parentheses precedence requires (+ random redundant ones), random blanks"""
    style = style or rng.choice(["tight", "spaced", "mixed"])
    sp = lambda: "" if style == "tight" else " " if style == "spaced" else rng.choice(["", " ", "  "])
    k = t[0]
    if k == "atom":
        s = t[4]
        if rng.random() < .1:
            s = "(" + s + ")"
        return s
    if k == "not":
        inner = render(rng, t[1], PREC["not"], style)
        if t[1][0] in ("and", "or") and not inner.startswith("("):
            inner = "(" + inner + ")"
        return "!" + sp() + inner
    a = render(rng, t[1], PREC[k], style)
    # the right operand of the same operator gets parentheses so that the tree shape is what was generated
    b = render(rng, t[2], PREC[k] + 1 if t[2][0] == k else PREC[k], style)
    s = a + sp() + ("&&" if k == "and" else "||") + sp() + b
    if PREC[k] < parent or rng.random() < .08:
        s = "(" + s + ")"
    return s


def ev(t, val):
    """ordinary Boolean semantics; val = (ordinal, sod or None)"""
    k = t[0]
    if k == "not":
        return not ev(t[1], val)
    if k == "and":
        return ev(t[1], val) and ev(t[2], val)
    if k == "or":
        return ev(t[1], val) or ev(t[2], val)
    _, kind, op, v, _txt = t
    o, s = val
    D = cal.Day(o)
    if kind == "date":
        return cmp_op(op, o, v)
    if kind == "time":
        return cmp_op(op, s, v)
    if kind == "dt":
        return cmp_op(op, (o, s), v)
    lhs = {"Y": D.y, "m": D.m, "d": D.d, "j": D.yday, "c": D.cnt_mon, "u": D.iwd, "wd": D.wd,
           "wkV": D.iw, "wkU": D.wk_U, "wkW": D.wk_W, "wkC": D.cnt_year}[kind]
    return cmp_op(op, lhs, v)


def shape_of(t):
    def depth(t):
        return 0 if t[0] == "atom" else 1 + max(depth(x) for x in t[1:] if isinstance(x, tuple))

    def has(t, f):
        return f(t) or any(has(x, f) for x in t[1:] if isinstance(x, tuple) and t[0] != "atom")
    f = []
    if has(t, lambda x: x[0] == "not" and x[1][0] != "atom"):
        f.append("neg-junction")
    elif has(t, lambda x: x[0] == "not"):
        f.append("neg-atom")
    if has(t, lambda x: x[0] == "not" and x[1][0] == "not"):
        f.append("dblneg")
    if has(t, lambda x: x[0] == "and" and (x[1][0] == "or" or x[2][0] == "or")):
        f.append("and-over-or")
    if has(t, lambda x: x[0] == "and" and x[1][0] == "and"):
        f.append("left-and")
    if has(t, lambda x: x[0] == "or" and x[1][0] == "or"):
        f.append("left-or")
    if has(t, lambda x: x[0] == "atom" and x[1] not in ("date", "time", "dt")):
        f.append("spec")
    return "d%d:%s" % (min(depth(t), 5), "+".join(f) or "plain")


def grep_task(task):
    bindir, seed, nexpr = task
    import random
    rng = random.Random(seed)
    sh = Shard()
    bnd = cal.boundary_ordinals(11)
    with_time = rng.random() < .4
    # the line values: a cluster so that comparisons discriminate, plus far values
    c = rng.choice(bnd)
    c = max(cal.ORD_MIN + 500, min(c, cal.ORD_MAX - 1500))
    pool = []
    for _ in range(28):
        o = c + rng.choice([0, 1, -1, 2, 7, -7, 30, -31, 365, -366, rng.randrange(-400, 400)])
        pool.append((o, rng.choice([0, 43200, 86399, rng.randrange(86400)]) if with_time else None))
    lines, vals = [], []
    for (o, s) in pool:
        txt = cal.Day(o).ymd() + ("T" + hms(s) if with_time else "")
        k = rng.random()
        if k < .1:
            lines.append(" ".join(rng.sample(WORDS, 3)))           # no date at all
            vals.append([])
            continue
        if k < .2:
            o2, s2 = rng.choice(pool)
            txt2 = cal.Day(o2).ymd() + ("T" + hms(s2) if with_time else "")
            lines.append("%s %s and %s %s" % (rng.choice(WORDS), txt, txt2, rng.choice(WORDS)))
            vals.append([(o, s), (o2, s2)])
            continue
        lines.append(rng.choice(["%s", "%s", "x %s", "%s y", "log: %s ok", "\t%s", "%s\r"]) % txt)
        vals.append([(o, s)])
    stdin = ("\n".join(lines) + "\n").encode()
    for _ in range(nexpr):
        shape = rng.choice(SHAPES)
        t = shaped_tree(rng, pool, with_time, shape)
        expr = render(rng, t)
        inv = rng.random() < .3
        argv = [str(bindir / "dgrep")] + (["-v"] if inv else []) + ["--", expr]
        r = run(argv, stdin=stdin, cpu=10, wall=60)
        sh.procs += 1
        cls = ("dt" if with_time else "d", shape_of(t), "v" if inv else "-")
        if sh.check_san(r, "safety", "grep:%s" % shape):
            continue
        if r.rc not in (0, 1):
            sh.bad("select", "grep:rc%s:%s" % (r.rc, shape), "%s: exit status %s, stderr %r" % (core.shq(argv), r.rc, r.err[:200]),
                   res_replay(r), cls=cls)
            continue
        # a CR before the line feed is dropped by the line reader (by design, see C18)
        exp = [ln.rstrip("\r") for ln, vs in zip(lines, vals) if any(ev(t, v) for v in vs) != inv]
        got = r.out.decode("latin-1").split("\n")
        if got and got[-1] == "":
            got.pop()
        if got == exp:
            sh.ok("select", cls + ("some" if exp else "none",))
        else:
            extra = [g for g in got if g not in exp]
            missing = [e for e in exp if e not in got]
            kind = "extra+missing" if extra and missing else "extra" if extra else "missing" if missing else "order"
            feats = shape_of(t).split(":")[1]
            sh.bad("select", "grep:%s:%s:%s" % (feats, "v" if inv else "-", kind),
                   "dgrep %s%r: %d lines, model %d; e.g. %r" % ("-v " if inv else "", expr, len(got), len(exp), (extra + missing)[:1]),
                   dict(argv=argv, stdin=stdin.decode("latin-1"), expected=exp, got=got), cls=cls)
    sh.sample(dict(expr=expr, lines=len(lines)), cap=1)
    return sh


def hostile_task(task):
    """whatever the shape of the expression: no crash, no sanitizer report, an exit status"""
    bindir, seed, n = task
    import random
    rng = random.Random(seed)
    sh = Shard()
    pool = [(cal.ORD_MIN + 150000 + i * 17, None) for i in range(12)]
    stdin = ("\n".join("x %s y" % cal.Day(o).ymd() for o, _ in pool) + "\nno date here\n").encode()
    for _ in range(n):
        k = rng.randrange(12)
        A = lambda: rand_atom(rng, pool, False)[4]
        if k == 0:
            e = "(" * rng.choice([1, 5, 200, 3000]) + A() + ")" * rng.choice([0, 1, 5, 200, 3000])
        elif k == 1:
            e = (" && " if rng.random() < .5 else " || ").join(A() for _ in range(rng.choice([50, 500, 3000])))
        elif k == 2:
            e = " && ".join("(%s || %s)" % (A(), A()) for _ in range(rng.choice([2, 6, 10, 12])))
        elif k == 3:
            e = "!" * rng.choice([1, 2, 7, 500]) + rng.choice(["", "(", " "]) + A()
        elif k == 4:
            e = rng.choice(["", " ", "&&", "||", "!", "(", ")", "()", "(&&)", "<", "=", "%", "%Y", "%Y=", "%Y<<1", "%a=", '%a="', "%a='Mon", '"', "'",
                            "<>2012-01-01", "=>2012-01-01", "&& 2012-01-01", "2012-01-01 &&", "2012-01-01 || || 2012-01-02", "%zz=1",
                            "%a=5", '%Y="x"', '%a="Miracleday"', "%Y=99999999999999999999", "%d=-1", "2012-01-01 2012-01-02"])
        elif k == 5:
            e = render(rng, rand_tree(rng, pool, False, 7))
        elif k == 6:
            e = render(rng, ("not", shaped_tree(rng, pool, False, "cnf")))
        elif k == 7:
            t = render(rng, rand_tree(rng, pool, False, 3))
            i = rng.randrange(len(t) + 1)
            e = t[:i] + rng.choice(["(", ")", "&", "|", "!", "&&&", "|||", "\x01", "\xff", '"', "%"]) + t[i:]
        elif k == 8:
            t = render(rng, rand_tree(rng, pool, False, 3))
            e = t[: rng.randrange(len(t) + 1)]
        elif k == 9:
            e = " || ".join("(%s && %s && !(%s || %s))" % (A(), A(), A(), A()) for _ in range(rng.choice([3, 40])))
        elif k == 10:
            e = "%" + "".join(rng.choice("_OaAbBdYmjcCuwV%") for _ in range(rng.randrange(1, 30))) + rng.choice(OPS) + rng.choice(['"Mon"', "12", A()])
        else:
            e = "x" * rng.choice([255, 256, 4096, 70000]) + A()
        argv = [str(bindir / "dgrep")] + (["-v"] if rng.random() < .3 else []) + ["--", e.encode("latin-1", "replace")]
        r = run(argv, stdin=stdin, cpu=20, wall=120, max_out=1 << 20)
        sh.procs += 1
        cls = ("hostile", "k%d" % k)
        if sh.check_san(r, "safety", "grep:hostile:k%d" % k):
            continue
        if r.rc not in (0, 1, 2):
            sh.bad("safety", "grep:hostile:rc%s" % r.rc, "dgrep %r: exit status %s" % (e[:120], r.rc), res_replay(r), cls=cls)
            continue
        sh.ok("safety", cls + ("rc%d" % r.rc,))
    return sh


def _dispatch(t):
    return grep_task(t[1]) if t[0] == "g" else hostile_task(t[1])


def main(tier, seed):
    ctx = core.Ctx("C17", tier, seed)
    bindir = ctx.bin("san")
    quick = tier == "quick"
    tasks = [("g", (bindir, seed * 104729 + i, 60 if quick else 200)) for i in range(96 if quick else 960)]
    tasks += [("h", (bindir, seed * 15485863 + i, 40 if quick else 150)) for i in range(16 if quick else 64)]
    for sh in core.pmap(_dispatch, tasks):
        ctx.merge(sh)
    ctx.rule = ("events = one dgrep [-v] EXPR run over 28 generated lines (dates or date-times inside free text, lines without a "
                "date, lines with two dates, CR endings); EXPR rendered from a random tree over comparison atoms (dates, times, "
                "date-times, %Y %m %d %j %c %u %a %A %b %B %V %U %W %C with all six operators) with !, &&, || and the parentheses its shape "
                "needs, random blanks; shapes: left/right chains of && and ||, conjunctions of disjunctions, negated junctions, "
                "double negation, && over || at depth, random trees to depth 4; oracle: ordinary Boolean evaluation of the tree on "
                "each date of a line, line selected iff some date satisfies it, -v the complement; the whole output must equal the "
                "selected lines, unchanged and in input order; 'hostile' = malformed, truncated, 3000-deep, 3000-atom and 12-factor conjunction-of-disjunction expressions must end with an exit status and no report; ASan/UBSan + the dexpr probe (no negation flag left, no node "
                "reachable twice after simplification) watch every run. distinct_nontrivial = distinct (value kind, depth, shape "
                "features, -v, some/none selected)")
    ctx.assumptions = ["atoms compare like with like: date-only lines get date and specifier atoms, date-time lines also time and "
                       "date-time atoms", "-o and the --eq/--lt option forms are covered by the pinned suite only"]
    ctx.min_evals = 3000
    return ctx.finish()


if __name__ == "__main__":
    sys.exit(main("quick", 1))
