"""C14 - leap-second aware results follow the leap-second table"""
import sys
from datetime import date

from .. import core
from ..core import Shard, run, align_lines, res_replay
from ..oracle import cal, leap, tzif

EP_MAX = (cal.ORD_MAX - 606 - cal.ORD_UNIX) * 86400      # stay clear of finding F1


KALS = ("ymd", "ymcw", "ywd", "yd", "epoch")


def civ(e, leap_label=False, kal="ymd"):
    if kal == "epoch":
        # the count of seconds has no label for an inserted second, it reads as the midnight after it
        return str(e + (1 if leap_label else 0))
    o = e // 86400 + cal.ORD_UNIX
    s = e % 86400
    d = getattr(cal.Day(o), kal)()
    if leap_label:
        # e is the last regular second before the inserted one
        return d + "T23:59:60"
    return d + "T%02d:%02d:%02d" % (s // 3600, s // 60 % 60, s % 60)


def pt(x):
    """an operand: a regular UTC second t, or (t, True) for the inserted second after t (t is then 23:59:59)"""
    return x if isinstance(x, tuple) else (x, False)


def side(L, t):
    """position of t relative to the table: (interval index, boundary side)"""
    import bisect
    i = bisect.bisect_right(L.ts, t)
    if i and t == L.ts[i - 1]:
        s = "at"
    elif i and t - L.ts[i - 1] <= 2:
        s = "just-after"
    elif i < len(L.ts) and L.ts[i] - t <= 2:
        s = "just-before"
    else:
        s = "interior"
    return i, s


def offs_task(task):
    bindir, zone, ts = task
    sh = Shard()
    L = leap.Leaps()
    ts = [pt(t) for t in ts]
    lines = [civ(*t) for t in ts]
    argv = [str(bindir / "dconv"), "--zone", zone, "-f", "%FT%T"]
    r = run(argv, stdin=("\n".join(lines) + "\n").encode(), cpu=30, wall=120)
    sh.procs += 1
    sh.check_san(r, "san", "leap:offs:%s" % zone)
    outs, _ = align_lines(lines, r)
    for (t, tlab), got in zip(ts, outs):
        # an inserted second is one second after the 23:59:59 before it, the offset steps only at the midnight after it
        off = L.tai_utc(t) if zone == "TAI" else L.gps_utc(t)
        want = civ(t + tlab + off) if off or not tlab else civ(t, True)         # offset 0 (GPS before 1980): the label stays
        i, s = side(L, t)
        if tlab:
            s = "inserted"
        era = "pre-1972" if t < L.ts[0] else "post-2038" if t >= 2 ** 31 else "after-last" if i == len(L.ts) else "table"
        c = (zone, era, s, "interval%d" % i if era == "table" else era)
        if got == want:
            sh.ok("leap-offset", c)
        else:
            delta = "?"
            try:
                from datetime import datetime
                g = datetime.strptime(got, "%Y-%m-%dT%H:%M:%S")
                w = datetime.strptime(want, "%Y-%m-%dT%H:%M:%S")
                delta = int((g - w).total_seconds())
            except Exception:
                pass
            sh.bad("leap-offset", "leap:offs:%s:%s:%s:delta=%s" % (zone, era, s, delta if isinstance(delta, str) or abs(delta) < 3 else "big"),
                   "dconv --zone %s %s -> %r, table says %s-UTC = %d s there: %s" % (zone, civ(t, tlab), got, zone, off, want),
                   dict(argv=argv, input=civ(t, tlab), expected=want, observed=got), cls=c)
    if outs:
        sh.sample(dict(cmd=core.shq(argv), input=lines[0], output=outs[0]), cap=1)
    return sh


def rdiff_task(task):
    bindir, a, bs = task[:3]
    kal = task[3] if len(task) > 3 else "ymd"
    sh = Shard()
    L = leap.Leaps()
    a, bs = pt(a), [pt(b) for b in bs]
    lines = [civ(*b, kal=kal) for b in bs]
    if kal == "epoch":
        if a[1]:
            return sh
        bs = [b for b in bs if not b[1]]
        lines = [civ(*b, kal=kal) for b in bs]
    argv = [str(bindir / "ddiff")] + (["-i", "%s"] if kal == "epoch" else []) + [civ(*a, kal=kal), "-f", "%rS"]
    r = run(argv, stdin=("\n".join(lines) + "\n").encode(), cpu=30, wall=120)
    sh.procs += 1
    sh.check_san(r, "san", "leap:rdiff")
    outs, _ = align_lines(lines, r)
    # the plain UTC difference comes from a separate run (%S next to %rS would be leap-aware too)
    r2 = run(argv[:-1] + ["%S"], stdin=("\n".join(lines) + "\n").encode(), cpu=30, wall=120)
    sh.procs += 1
    outs2, _ = align_lines(lines, r2)
    # and both in one format: the sign is printed once, in front; a repeated %rS is the same number again
    # (with the real or with the plain specifier last, task by task)
    fmt3 = "%rS|%S|%rS" if (a[0] + len(bs)) % 2 else "%rS|%S"
    r3 = run(argv[:-1] + [fmt3], stdin=("\n".join(lines) + "\n").encode(), cpu=30, wall=120)
    sh.procs += 1
    sh.check_san(r3, "san", "leap:rdiff")
    outs3, _ = align_lines(lines, r3)
    outs3 = outs3 + [None] * (len(bs) - len(outs3))
    outs = ["%s|%s" % (x, y) for x, y in zip(outs, outs2)]
    for b, got, got3 in zip(bs, outs, outs3):
        # position on the line of SI seconds; an inserted second is one past the 23:59:59 before it
        ca, cb = (x[0] + L.nleaps(x[0]) + x[1] for x in (a, b))
        want_r = cb - ca
        sgn = 1 if want_r >= 0 else -1
        # in UTC the inserted second and the midnight after it are the same label
        want_s = (b[0] + b[1]) - (a[0] + a[1])
        nl = abs(want_r - want_s)
        lo, hi = min(a[0], b[0]), max(a[0], b[0])
        sa = "inserted" if a[1] else side(L, a[0])[1]
        sb = "inserted" if b[1] else side(L, b[0])[1]
        c = ("rdiff", kal, "+" if sgn > 0 else "-", "leaps%d" % min(nl, 3), sa, sb) + (("beyond-2^31",) if hi - lo >= 2 ** 31 else ())
        want3 = "%d|%d|%d" % (want_r, abs(want_s), abs(want_r)) if fmt3.count("|") == 2 else "%d|%d" % (want_r, abs(want_s))
        if got3 == want3:
            sh.ok("leap-diff", c + ("one-format",))
        else:
            sh.bad("leap-diff", "leap:rdiff3:%s%s:%s:a=%s:b=%s" % ("" if kal == "ymd" else kal + ":", c[2], "with-leaps" if nl else "no-leaps", sa, sb),
                   "ddiff %s %s -f '%s' -> %r, expected %s (%d leap second(s) in between)" % (civ(*a, kal=kal), civ(*b, kal=kal), fmt3, got3, want3, nl),
                   dict(argv=argv[:-1] + [fmt3], input=civ(*b, kal=kal), expected=want3, observed=got3), cls=c + ("one-format",))
        if got == "%d|%d" % (want_r, want_s):
            sh.ok("leap-diff", c)
        else:
            try:
                gr = int(got.split("|")[0])
                d = gr - want_r
                ds = "malformed" if False else ("delta=%d" % d if abs(d) <= 3 else "delta=big")
            except Exception:
                ds = "malformed"
            sh.bad("leap-diff", "leap:rdiff:%s%s:%s:%s:a=%s:b=%s" % ("" if kal == "ymd" else kal + ":", c[2], "with-leaps" if nl else "no-leaps", ds, sa, sb),
                   "ddiff %s %s -f %%rS (and -f %%S) -> %r, expected %d|%d (%d leap second(s) in between)" %
                   (civ(*a, kal=kal), civ(*b, kal=kal), got, want_r, want_s, nl),
                   dict(argv=argv, input=civ(*b, kal=kal), expected="%d|%d" % (want_r, want_s), observed=got), cls=c)
    return sh


def radd_task(task):
    bindir, n, ts = task[:3]
    kal = task[3] if len(task) > 3 else "ymd"
    sh = Shard()
    L = leap.Leaps()
    ts = [pt(t) for t in ts]
    ts = [t for t in ts if t[0] >= 0 and t[0] + n >= 0]
    if not ts:
        return sh
    if kal == "epoch":
        ts = [t for t in ts if not t[1]]
    lines = [civ(*t, kal=kal) for t in ts]
    # the same count of SI seconds as real hours or real minutes where it is a whole number of them
    dtxt = "%+drh" % (n // 3600) if n % 3600 == 0 and n // 3600 % 2 == 0 else "%+drm" % (n // 60) if n % 60 == 0 else "%+drs" % n
    argv = [str(bindir / "dadd")] + (["-i", "%s", "-f", "%s"] if kal == "epoch" else []) + ["--"] + \
        (["+0s"] if kal == "epoch" and n < 0 else []) + [dtxt]        # -i %s would read a leading -N as the operand
    r = run(argv, stdin=("\n".join(lines) + "\n").encode(), cpu=30, wall=120)
    sh.procs += 1
    sh.check_san(r, "san", "leap:radd")
    outs, _ = align_lines(lines, r)
    for (t, tlab), got in zip(ts, outs):
        # from an inserted second: one SI second past the 23:59:59 before it
        u, lab = L.add_si(t, n + tlab)
        want = civ(u, lab, kal)
        crossed = L.leaps_between(min(t, u), max(t, u) + (1 if lab else 0))
        c = ("radd", "+" if n > 0 else "-", "lands-on-leap" if lab else "crosses%d" % min(crossed, 2),
             "small" if abs(n) < 100 else "day" if abs(n) < 200000 else "year") + (("from-inserted",) if tlab else ()) + ((kal,) if kal != "ymd" else ())
        if got == want:
            sh.ok("leap-add", c)
        else:
            sh.bad("leap-add", "leap:radd:%s:%s:%s%s" % (c[1], c[2], c[3], (":from-inserted" if tlab else "") + (":" + kal if kal != "ymd" else "")),
                   "dadd %s %s -> %r, %d SI seconds later is %s" % (civ(t, tlab, kal), dtxt, got, n, want),
                   dict(argv=argv, input=civ(t, tlab, kal), expected=want, observed=got), cls=c)
    return sh


def moadd_task(task):
    """real seconds after month arithmetic in the same invocation: 05-31 +1mo is 06-31 until it is printed, the leap table
    has to be asked about the 30th"""
    bindir, year = task
    sh = Shard()
    L = leap.Leaps()
    j30 = (date(year, 6, 30).toordinal() - cal.ORD_UNIX) * 86400
    cases = []
    for sod in (86399, 86398, 86395, 43200):
        for n in (1, 2, 3, 6, 86400, 86401):
            cases.append(("%04d-05-31T%s" % (year, civ(sod)[11:]), ["+1mo", "%+drs" % n], j30 + sod, n))
            cases.append(("%04d-03-31T%s" % (year, civ(sod)[11:]), ["+3mo", "%+drs" % n], j30 + sod, n))
    for sod in (0, 1, 5):
        for n in (1, 2, 6, 7, 86401):
            cases.append(("%04d-07-31T%s" % (year, civ(sod)[11:]), ["-1mo", "%+drs" % -n], j30 + sod, -n))
    for src, durs, base, n in cases:
        argv = [str(bindir / "dadd"), src, "--"] + durs
        r = run(argv, cpu=10, wall=60)
        sh.procs += 1
        sh.check_san(r, "san", "leap:moadd")
        got = r.out.decode("latin-1").rstrip("\n")
        u, lab = L.add_si(base, n)
        want = civ(u, lab)
        leapyear = (j30 + 86400) in L.steps
        c = ("moadd", "+" if n > 0 else "-", "leap-june" if leapyear else "plain-june", "lands-on-leap" if lab else "regular")
        if got == want:
            sh.ok("leap-add", c)
        else:
            sh.bad("leap-add", "leap:moadd:%s:%s:%s" % (c[1], c[2], c[3]),
                   "dadd %s %s -> %r; the month step gives %s, %d SI seconds from there is %s" % (src, " ".join(durs), got, civ(base), n, want),
                   dict(argv=argv, expected=want, observed=got), cls=c)
    return sh


ZONES = ["Europe/Berlin", "America/New_York", "Asia/Kolkata", "Australia/Sydney", "Pacific/Chatham"]
_ZC = {}


def _zone(z):
    if z not in _ZC:
        _ZC[z] = tzif.load("/usr/share/zoneinfo/" + z)
    return _ZC[z]


def zradd_task(task):
    """real seconds are counted on the UTC line whatever zone the operand was read in, and whatever other durations
    stand next to them: dadd --from-zone Z -- [Kd] Nrs [0d] reads local stamps, prints UTC"""
    bindir, zone, pre, n, post, ts = task
    sh = Shard()
    L = leap.Leaps()
    Z = _zone(zone)
    keep, lines = [], []
    for t in ts:
        if t < 0 or t + (pre or 0) * 86400 < 0 or t + (pre or 0) * 86400 + n < 0:
            continue
        loc = t + Z.offset(t)
        if Z.utc_candidates(loc) != [t]:
            continue
        keep.append(t)
        lines.append(civ(loc))
    if not keep:
        return sh
    durs = (["%+dd" % pre] if pre is not None else []) + ["%+drs" % n] + ([post] if post else [])
    argv = [str(bindir / "dadd"), "--from-zone", zone, "--"] + durs
    r = run(argv, stdin=("\n".join(lines) + "\n").encode(), cpu=30, wall=120)
    sh.procs += 1
    sh.check_san(r, "san", "leap:zradd")
    outs, _ = align_lines(lines, r)
    # the argument path reads the operand a second time once the durations are known: a few stamps go that way too
    outs = outs + [None] * (len(keep) - len(outs))
    narg = min(len(keep), 4)
    for t, ln in list(zip(keep, lines))[:narg]:
        ra = run(argv[:3] + [ln] + durs, cpu=10, wall=60)
        sh.procs += 1
        sh.check_san(ra, "san", "leap:zradd")
        outs.append(ra.out.decode("latin-1").rstrip("\n"))
    via = ["stdin"] * len(keep) + ["arg"] * narg
    for t, ln, got, how in zip(keep + keep[:narg], lines + lines[:narg], outs, via):
        u, lab = L.add_si(t + (pre or 0) * 86400, n)
        want = civ(u, lab)
        shape = ("Kd+" if len(durs) > 1 and durs[0].endswith("d") else "") + "Nrs" + ("+0d" if post else "")
        c = ("zradd", how, shape, "+" if n > 0 else "-", "lands-on-leap" if lab else "regular", "east" if Z.offset(t) > 0 else "west")
        if got == want:
            sh.ok("leap-add", c)
        else:
            sh.bad("leap-add", "leap:zradd:%s:%s:%s:%s" % (how, shape, c[3], c[4]),
                   "dadd --from-zone %s %s %s -> %r; that is %s UTC, and %s later is %s" %
                   (zone, ln, " ".join(durs), got, civ(t), " ".join(durs), want),
                   dict(argv=argv if how == "stdin" else argv[:3] + [ln] + durs, input=ln if how == "stdin" else None,
                        expected=want, observed=got), cls=c)
    return sh


def _dispatch(t):
    if t[0] == "inv":
        return inv_task(t[1])
    return {"offs": offs_task, "rdiff": rdiff_task, "radd": radd_task, "zradd": zradd_task, "moadd": moadd_task}[t[0]](t[1])


def inv_task(task):
    """--from-zone TAI|GPS: a stamp on the TAI (GPS) scale back to UTC; the offset is the one in force at the UTC instant"""
    bindir, zone, ts = task
    sh = Shard()
    L = leap.Leaps()
    f = L.tai_utc if zone == "TAI" else L.gps_utc
    xs, us = [], []
    for t in ts:
        for d in (-1, 0, 1, 5, 17, 18, 19, 36, 37, 38):
            x = t + f(t) + d
            # the UTC instant u with u + offset(u) == x, if it is a regular second
            cand = [x - k for k in set(f(v) for v in (x - 40, x - 20, x - 10, x))]
            u = [c for c in cand if c + f(c) == x]
            if len(u) == 1 and 0 <= u[0] <= EP_MAX and 0 <= x <= EP_MAX:
                xs.append(x)
                us.append(u[0])
    lines = [civ(x) for x in xs]
    argv = [str(bindir / "dconv"), "--from-zone", zone, "-f", "%FT%T"]
    r = run(argv, stdin=("\n".join(lines) + "\n").encode(), cpu=30, wall=120)
    sh.procs += 1
    sh.check_san(r, "san", "leap:inv:%s" % zone)
    outs, _ = align_lines(lines, r)
    for x, u, got in zip(xs, us, outs):
        i, sd = side(L, u)
        c = (zone + "-inverse", "pre-1972" if u < L.ts[0] else "table", sd)
        if got == civ(u):
            sh.ok("leap-offset", c)
        else:
            sh.bad("leap-offset", "leap:inv:%s:%s" % (zone, sd),
                   "dconv --from-zone %s %s -> %r, the UTC instant with that %s label is %s" % (zone, civ(x), got, zone, civ(u)),
                   dict(argv=argv, input=civ(x), expected=civ(u), observed=got), cls=c)
    return sh


def main(tier, seed):
    ctx = core.Ctx("C14", tier, seed)
    bindir = ctx.bin("san")
    rng = ctx.rng
    quick = tier == "quick"
    L = leap.Leaps()
    bnd = []
    for t in L.ts:
        bnd += [t - 2, t - 1, t, t + 1, t + 2]
    mids = [(a + b) // 2 for a, b in zip(L.ts, L.ts[1:])]
    years = [(date(y, 1, 1).toordinal() - cal.ORD_UNIX) * 86400 for y in range(1970, 4094, 1 if not quick else 7)]
    far = [2 ** 31 - 2, 2 ** 31 - 1, 2 ** 31, 2 ** 31 + 1, 2 ** 32 - 1, 2 ** 32, 2 ** 32 + 1, EP_MAX - 100]
    offs_ts = sorted(set(bnd + mids + years + far + [0, 1, 86400, L.ts[0] - 86400 * 200]))
    offs_ts = [t for t in offs_ts if 0 <= t <= EP_MAX]
    insl = [(t - 1, True) for t in L.steps]
    tasks = [("offs", (bindir, "TAI", offs_ts + insl)), ("offs", (bindir, "GPS", offs_ts + [315964799, 315964800, 315964801] + insl))]
    tasks += [("inv", (bindir, "TAI", offs_ts)), ("inv", (bindir, "GPS", [t for t in offs_ts if t >= 315964800]))]
    # the same instants in descending and in random order within one process (a lookup must not depend on the one before)
    shuf = list(offs_ts + insl)
    rng.shuffle(shuf)
    for zone in ("TAI", "GPS"):
        tasks.append(("offs", (bindir, zone, list(reversed(offs_ts + insl)))))
        tasks.append(("offs", (bindir, zone, shuf)))
        tasks.append(("inv", (bindir, zone, list(reversed([t for t in offs_ts if t >= 315964800])))))
    rnd = [rng.randrange(L.ts[0], L.ts[-1] + 86400 * 3000) for _ in range(200 if quick else 5000)]
    for ch in range(0, len(rnd), 100):
        tasks.append(("offs", (bindir, "TAI", sorted(rnd[ch:ch + 100]))))
    # %rS: all ordered pairs of boundary instants (regular seconds only) + random
    pts = sorted(set([t + d for t in L.ts[1:] for d in (-2, -1, 0, 1)] + rng.sample(mids, 6) + [L.ts[0] + 5, L.ts[-1] + 86400 * 400] +
                     # far apart: differences beyond 2^31 and 2^32 s
                     [0, 1, L.ts[0] - 1, 2 ** 31 + 5, L.ts[0] + 2 ** 31, L.ts[0] + 2 ** 31 - 28, L.steps[-1] + 2 ** 31 - 1, L.steps[-1] + 2 ** 32,
                      EP_MAX - 100] + [rng.randrange(2 ** 31, EP_MAX) for _ in range(6)]))
    ins = [(t - 1, True) for t in L.steps]
    pts = pts + ins
    anchors = pts if not quick else rng.sample(ins, 6) + rng.sample(pts, 40) + [L.steps[0] - 1, L.steps[0], L.steps[-1] - 1, L.steps[-1]]
    for a in anchors:
        tasks.append(("rdiff", (bindir, a, pts + [rng.randrange(L.ts[0], L.ts[-1] + 10 ** 8) for _ in range(30)])))
    # the same in the other calendars a date-time can be written in (each has its own column of the table, or none)
    for kal in KALS[1:]:
        for a in (anchors if not quick else rng.sample(anchors, 8)):
            tasks.append(("rdiff", (bindir, a, pts + [rng.randrange(L.ts[0], L.ts[-1] + 10 ** 8) for _ in range(30)], kal)))
    # +Nrs
    # around every inserted second, and around the table's first row (1972-01-01), which is NOT an insertion
    add_ts = sorted(set(t + d for t in L.steps for d in range(-5, 6)) | set(L.ts[0] + d for d in (-20, -10, -1, 0, 1, 10)))
    # distances from one inserted second to another (+-3 s): the walk has to correct for every insertion in between and
    # still land on, just before or just after one
    spans = [L.steps[j] - L.steps[i] + d for i in range(len(L.steps)) for j in range(i + 1, len(L.steps)) for d in range(-3, 4)]
    spans = rng.sample(spans, 12 if quick else 1500) + [63072001, 94608001, 142128001, L.steps[-1] - L.steps[0] + 1]
    for n in [1, 2, 3, 4, 5, 6, 60, 3600, 7200, 86400, 86401, 31536000, 63072000] + spans + [rng.randrange(1, 10 ** 8) for _ in range(6 if quick else 300)]:
        for s in (1, -1):
            tasks.append(("radd", (bindir, s * n, add_ts + ins + [rng.randrange(L.ts[0] + 100, L.ts[-1] + 10 ** 8) for _ in range(40)])))
            if not quick or n in (1, 2, 60, 7200, 86401, 63072000, 63072001) or n > 10 ** 6 and n % 3 == 0:
                for kal in KALS[1:]:
                    tasks.append(("radd", (bindir, s * n, add_ts + ins + [rng.randrange(L.ts[0] + 100, L.ts[-1] + 10 ** 8) for _ in range(10)], kal)))
    # the same additions with the operand given in a zone's wall clock and further durations next to the real seconds
    for zone in ZONES:
        for n in [1, 2, 5, 30, 86401] + [rng.randrange(1, 10 ** 6) for _ in range(2 if quick else 40)]:
            for s in (1, -1):
                for pre, post in ((None, None), (None, "0d"), (None, "+0mo"), (0, None), (1, None), (-1, None), (7, "0d")):
                    tasks.append(("zradd", (bindir, zone, pre, s * n, post,
                                            [t + d for t in rng.sample(L.steps, 8 if quick else len(L.steps)) for d in (-5, -2, -1, 0, 1, 3)] +
                                            [rng.randrange(L.ts[0] + 100, L.ts[-1] + 10 ** 8) for _ in range(10)])))
    # real seconds behind a month step that leaves a 31st of June standing
    for year in sorted(set(date.fromordinal(t // 86400 + cal.ORD_UNIX - 1).year for t in L.steps if date.fromordinal(t // 86400 + cal.ORD_UNIX).month == 7)
                       | {1980, 2011, 2013, 2100}):
        tasks.append(("moadd", (bindir, year)))
    for sh in core.pmap(_dispatch, tasks):
        ctx.merge(sh)
    ctx.rule = ("events: (0) dconv --from-zone TAI|GPS for stamps -1..+38 s around every table entry (the inverse mapping); (1) dconv --zone TAI|GPS (instants in ascending, descending and random order within one process) at every table entry -2..+2 s and at every inserted second, interval midpoints, year starts to 4093, "
                "2^31 and 2^32 +-1, random: the applied offset must be the table value (TAI-UTC of the last entry <= t; "
                "GPS = TAI-19 from 1980-01-06); (2) ddiff A B -f '%%rS|%%S' on ordered pairs of boundary instants: real "
                "seconds = UTC difference + leap seconds in (A,B], antisymmetric, also for operands more than 2^31 and 2^32 s apart, with %%rS|%%S|%%rS in one format, and with either operand an inserted second 23:59:60; (3) dadd DT +-Nrs for instants -5..+5 s "
                "around every inserted second (and from the inserted seconds themselves) x N in {1..6, 60, 3600, 7200, 86400, 86401, 1 y, 2 y, random} (written as Nrs, or as real minutes/hours where whole): lands N SI seconds later, "
                "23:59:60 exactly on inserted seconds; N also the distance between any two insertions +-3 s; (4) the same with the operand in a zone's wall clock "
                "(dadd --from-zone Z -- [Kd] Nrs [0d], %d zones): real seconds count on the UTC line; (5) dadd Y-05-31T.. +1mo +Nrs and Y-07-31T.. -1mo -Nrs for every year with an insertion on June 30 (and four without). (2) and (3) also with the date-times written as ymcw, ywd, yd and as epoch seconds (-i %%s; an inserted second then reads as the following midnight). Oracle = lib/leap-seconds.list (%d entries, %d insertions). "
                "distinct_nontrivial = distinct (monitor, sign/zone, era or leaps crossed, side of the boundary)" %
                (len(ZONES), len(L.ts), len(L.steps)))
    ctx.assumptions = ["TAI-UTC before 1972-01-01 is taken as the table's first value (10 s)",
                       "the first table row (1972-01-01, 10 s) is not an inserted second",
                       "23:59:60 as an operand is accepted only where the table has an insertion; in the UTC difference (%S) it is the same label as the following midnight"]
    ctx.min_evals = 5000
    return ctx.finish()


if __name__ == "__main__":
    sys.exit(main("quick", 1))
