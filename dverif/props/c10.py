"""C10 - parsers and formatters are memory-safe and total on arbitrary input

Sanitizer + totality monitor over hostile inputs: the library entry points are
driven through dutdrv (every string an exact-size heap copy, every output buffer
an exact-size heap block of every size 0..300), the tools through their command
lines and stdin.  Verdict per execution: no ASan/UBSan/probe report, no death
signal, bounded CPU and output, return value <= buffer size, no output byte that
is not derivable from the inputs (a canary in the environment must never show).
"""
import os
import re
import sys
from collections import Counter

from .. import core, gen
from ..core import Shard, run, drive, req, res_replay
from ..oracle import cal

CANARY = "VERIFCANARYq7Zx3"


def mk_requests(rng, n):
    out = []
    for _ in range(n):
        k = rng.random()
        hf = rng.random() < .6
        ht = rng.random() < .6
        fmt = gen.hostile_format(rng) if hf else gen.rand_format(rng)
        txt = gen.hostile_text(rng) if ht else gen.rand_value_text(rng)
        bsz = rng.choice([0, 1, 2, 3, 7, 8, 9, 10, 11, 15, 16, 17, 31, 32, 33, 63, 64, 255, 256, 257, 300, rng.randrange(0, 301)])
        if rng.random() < .03:
            # an ordinal suffix at the very start of the caller's (exact-size) buffer, behind a field that may print nothing
            spec = rng.choice(["%jth", "%-jth", "%Dth", "%dth", "%mth", "%Fth", "%cth", "%Vth", "%Hth", "%jth|%F", "%Yth", "%qth"]) + rng.choice(["", "|%T", "x"])
            if rng.random() < .5:
                out.append(("F", req("F", None, rng.choice(["12:34:56", "2012-03-04", "2012-03-04T10:00:00", "2012-W10-7"]), spec, str(bsz)), "F:ordinal-first"))
            else:
                rep = rng.choice(["hijri", "ymd", "daisy", "ldn", "ymcw", "sexy"])
                out.append(("R", req("R", rep, str(rng.choice([150000, 910000, 140000])), None if rng.random() < .5 else "3600", spec, str(bsz)), "R:ordinal-first"))
            continue
        if rng.random() < .02:
            # day numbers have no field grammar: nothing, blanks and signs alone are not numbers
            out.append(("P", req("P", rng.choice(["ldn", "mdn", "jdn"]), rng.choice(["", " ", " x", "\t", "x", ".", "-", "+", " -", "  ", ". 5", "e5"])), "P:day-number-void"))
            continue
        if k < .04:
            # the -e option's unescaper, in place on an exact-size copy
            b = fmt if isinstance(fmt, bytes) else fmt.encode("utf-8", "surrogateescape")
            cut = sorted(rng.randrange(len(b) + 1) for _ in range(rng.randrange(1, 4)))
            for c_ in reversed(cut):
                b = b[:c_] + rng.choice([b"\\", b"\\n", b"\\t", b"\\\\", b"\\w", b"\\a", b"\\v", b"\\x", b"\\\xff"]) + b[c_:]
            if rng.random() < .4:
                b += b"\\"
            out.append(("E", req("E", b.replace(b"\0", b"")), "E:%s" % ("trail" if b.endswith(b"\\") else "mid")))
        elif k < .30:
            out.append(("P", req("P", fmt if rng.random() < .85 else None, txt), "P:%s:%s" % ("hf" if hf else "nf", "ht" if ht else "nt")))
        elif k < .55:
            out.append(("F", req("F", None, gen.rand_value_text(rng), fmt, str(bsz)), "F:%s:bsz%s" % ("hf" if hf else "nf", "small" if bsz < 12 else "big")))
        elif k < .80:
            rep = rng.choice(["ymd", "ymcw", "ywd", "yd", "daisy", "ldn", "mdn", "jdn", "sexy", "hijri"])
            dz = rng.choice([1, 2, 100000, 150000, 910674, 910675, 911280, rng.randrange(1, 911281)])
            sod = None if rng.random() < .5 else str(rng.choice([0, 1, 86399, 86400, rng.randrange(86400)]))
            out.append(("R", req("R", rep, str(dz), sod, fmt, str(bsz)), "R:%s:%s:bsz%s" % (rep, "hf" if hf else "nf", "small" if bsz < 12 else "big")))
        elif k < .90:
            d = gen.rand_duration(rng)
            f2 = rng.choice([None, None, "%d", "%Y %m %d", fmt])
            out.append(("U", req("U", d, f2, str(bsz)), "U:%s" % ("hf" if f2 == fmt and hf else "nf")))
        else:
            durs = [gen.rand_duration(rng) for _ in range(rng.randrange(1, 4))]
            out.append(("A", req("A", None, txt, rng.choice([None, fmt]), *durs), "A:%s" % ("ht" if ht else "nt")))
    return out


def drv_task(task):
    bindir, seed, n = task
    import random
    rng = random.Random(seed)
    sh = Shard()
    cases = mk_requests(rng, n)
    suppressed = Counter()
    sigcount = Counter()
    CH = 400
    for i in range(0, len(cases), CH):
        chunk = [c for c in cases[i:i + CH] if suppressed[c[2]] < 3]
        sh.extra["suppressed_after_3"] += len(cases[i:i + CH]) - len(chunk)
        if not chunk:
            continue
        reqs = [c[1] for c in chunk]
        ans, deaths = drive(bindir / "dutdrv", reqs, sh, cpu=10, wall=120, max_restarts=40,
                            env={"VERIF_CANARY_ENV": CANARY})
        for ix, r in deaths:
            kind = r.san_kind() or ("cpu-limit" if r.cpu_exceeded else "signal%s" % r.sig if r.sig else "rc%s" % r.rc)
            if r.timed_out and not r.cpu_exceeded:
                sh.extra["inconclusive_wall_timeouts"] += 1
                continue
            if ix < 0:
                # recoverable report somewhere in the batch: attribute to the batch
                sh.bad("drv-safety", "drv:%s:batch" % kind, "report during a batch of %d dutdrv requests" % len(reqs),
                       dict(driver_requests=reqs[:50], stderr=core.san_excerpt(r.err)))
                continue
            c = chunk[ix]
            if kind == "cpu-limit":
                # bounded progress: re-run the single request with a 12x budget before calling it a hang
                r2 = run([str(bindir / "dutdrv")], stdin=(reqs[ix] + "\n").encode("latin-1"), cpu=120, wall=300)
                sh.procs += 1
                if not r2.cpu_exceeded and r2.sig is None:
                    sh.extra["slow_but_terminating"] += 1
                    sh.ok("drv-safety", (c[0], c[2], "slow"))
                    continue
            sig = "drv:%s:%s" % (c[0], kind)
            sigcount[sig] += 1
            suppressed[c[2]] += 1
            sh.bad("drv-safety", sig, "dutdrv %s on request %s" % (kind, reqs[ix][:200]),
                   dict(argv=["dutdrv"], stdin=reqs[ix], stderr=core.san_excerpt(r.err)), cls=(c[0], "died", kind.split("@")[0]))
        for c, a in zip(chunk, ans):
            if a is None:
                continue
            cmd = c[0]
            parts = a.split()
            outcome = parts[0]
            if CANARY in a:
                sh.bad("drv-leak", "drv:%s:canary" % cmd, "environment canary in the answer to %s" % c[1][:200], dict(stdin=c[1]))
                continue
            if cmd == "P" and outcome == "OK":
                # the Umm-al-Qura reader has no field grammar to fall back on: what it accepts must be Y-M-D in range
                flds = c[1].split("\t")
                if len(flds) >= 3 and flds[1] in ("ldn", "mdn", "jdn", "lilian", "julian", "matlab"):
                    # a day number has to start with a number
                    if not re.match(r"^\s*[+-]?(\d|\.\d)", flds[2]):
                        sh.bad("drv-accept", "drv:P:day-number-accepts-garbage", "dt_strpdt(%r, %r) accepted: %s" % (flds[2][:60], flds[1], a[:80]),
                               dict(stdin=c[1], observed=a))
                        continue
                if len(flds) >= 3 and flds[1] in ("hijri", "ummulqura"):
                    m_ = re.match(r"^(\d{4})-(\d{1,2})-(\d{1,2})", flds[2])
                    if not m_ or not (1 <= int(m_.group(2)) <= 12 and 1 <= int(m_.group(3)) <= 31):
                        sh.bad("drv-accept", "drv:P:hijri-accepts-garbage", "dt_strpdt(%r, %r) accepted: %s" % (flds[2][:60], flds[1], a[:80]),
                               dict(stdin=c[1], observed=a))
                        continue
            if cmd in ("F", "R", "U") and outcome in ("OK", "TRUNC", "UNK") and len(parts) >= 2:
                try:
                    bsz = int(c[1].split("\t")[-1])
                    nidx = {"F": 1, "R": 1, "U": 5}[cmd]
                    nret = int(parts[nidx]) if outcome != "UNK" or cmd == "R" else None
                except (ValueError, IndexError):
                    nret = None
                if nret is not None and nret > bsz:
                    sh.bad("drv-bufsize", "drv:%s:ret>bsz" % cmd, "formatter returned %d for a %d byte buffer: %s" %
                           (nret, bsz, c[1][:200]), dict(stdin=c[1], observed=a))
                    continue
            sh.ok("drv-safety", (cmd, c[2], outcome))
    sh.sample(dict(request=cases[0][1][:120]), cap=1)
    return sh


def tool_cases(rng, bindir, n):
    """-> list of (argv, stdin bytes, class)"""
    out = []
    T = lambda t: str(bindir / t)
    for _ in range(n):
        k = rng.randrange(14)
        fmt = gen.hostile_format(rng) if rng.random() < .7 else gen.rand_format(rng)
        txt = gen.hostile_text(rng) if rng.random() < .6 else gen.rand_value_text(rng)
        if isinstance(fmt, bytes):
            fmt = fmt.replace(b"\0", b"\x01") or b"x"
        if isinstance(txt, bytes):
            txt = txt.replace(b"\0", b"\x01").replace(b"\n", b" ")
        lines = [gen.hostile_text(rng) if rng.random() < .5 else gen.rand_value_text(rng) for _ in range(rng.randrange(1, 12))]
        stdin = b"\n".join(l if isinstance(l, bytes) else l.encode("utf-8", "surrogateescape") for l in lines) + b"\n"
        if rng.random() < .05:
            # digit-only input formats are searched without a needle character (the scanner uses \x01 as a stand-in):
            # lines with that very byte, and lines without any digit, next to real values
            dfmt = rng.choice(["%Y%m%d", "%s", "%H%M%S", "%Y%j", "%d%m%Y", "%y%m%d"])
            ls = []
            for _ in range(rng.randrange(2, 9)):
                w = rng.choice([b"\x01abcd", b"x\x01", b"ab\x01c", b"\x01", b"abc\x01\x01", b"no digits here", b"\x01" * 40, b"tail\x01"])
                ls.append(w if rng.random() < .7 else rng.choice([b"20120304", b"86400", b"121314", b"2012060"]))
            out.append(([T("dconv"), "-i", dfmt, "-S"], b"\n".join(ls) + b"\n", "needleless-sed"))
            continue
        if rng.random() < .05:
            # well-formed compound expressions: conjunctions over alternatives are multiplied out, with copies of sub-trees
            def ex(depth):
                r_ = rng.random()
                if depth <= 0 or r_ < .3:
                    return rng.choice(["%d=1", "%d=5", "%m=3", "%m>6", "%Y=2012", "%u!=7", "%a=Mon", ">=2012-01-01", "<2012-06-30T12:00:00",
                                       "%d<=09", "%j=060", "%H=12"])
                if r_ < .4:
                    return "!" + ex(depth - 1) if rng.random() < .5 else "!(" + ex(depth - 1) + ")"
                op = rng.choice([" && ", " || ", "&&", "||"])
                return "(" + op.join(ex(depth - 1) for _ in range(rng.choice([2, 2, 3, 4, 5]))) + ")"
            e = rng.choice([" && ", " || "]).join(ex(rng.choice([1, 2, 3])) for _ in range(rng.choice([1, 2, 3])))
            ls = "\n".join(gen.rand_value_text(rng) for _ in range(6)) + "\n2012-03-01\n2012-03-05T12:00:00\n"
            out.append(([T("dgrep")] + (["-v"] if rng.random() < .2 else []) + ["--", e], ls.encode("utf-8", "surrogateescape"), "dgrep-compound"))
            continue
        if rng.random() < .03:
            # an ordinal suffix behind a field that prints nothing (a day of the year for a time of day, ...), at the very
            # start of the format
            spec = rng.choice(["%jth", "%-jth", "%Dth", "%dth", "%mth", "%Yth", "%Fth", "%cth", "%Vth", "%qth", "%Hth", "%jth|%F", "%-dth%-dth"])
            val = rng.choice([["12:34:56"], ["-i", "hijri", "1445-01-01"], ["2012-03-04"], ["2012-03-04T12:00:00"], ["-i", "ldn", "157000"], ["2012-W10-7"]])
            tool = rng.choice(["dconv", "dconv", "dadd", "dround"])
            av = [T(tool), "-f", spec + rng.choice(["", "|%T", " x"])] + val + ({"dadd": ["1h"], "dround": ["1h"]}.get(tool, []))
            out.append((av, b"", "ordinal-first"))
            continue
        if rng.random() < .03:
            # many input formats: from 16 on the needles for the line scanner live on the heap
            nf = rng.choice([15, 16, 17, 24, 33, 64])
            fl = []
            for i_ in range(nf):
                fl += ["-i", rng.choice(["%Y/%m/%d", "%d.%m.%Y", "%Y%m%d", "%b %d %Y", "%F", "%d/%m/%y", "%A %d", "%s", "x%Y-%j"]) + rng.choice(["", " ", "x", "%%"])]
            tool = rng.choice(["dround", "dround", "dconv", "dadd", "dgrep", "dsort", "dtest"])
            tail = {"dround": ["-S", "1"], "dconv": ["-S"], "dadd": ["-S", "+1d"], "dgrep": [">=2012/01/01"], "dsort": [], "dtest": ["2012/03/17", "--gt", "17.03.2011"]}[tool]
            out.append(([T(tool)] + fl + tail, b"2012/03/17\n17.03.2012 x\n20120317\nMar 17 2012\nnothing\n", "many-formats"))
            continue
        if rng.random() < .03:
            # the directory of the zone maps comes from the environment: lengths around PATH_MAX, with and without a map name
            # that still fits
            n_ = rng.choice([4096, 4095, 4097, 4094, 4090, 4080, 255, 256, 257, 8192, 1]) + rng.choice([0, 0, 0, -1, 1])
            spec = rng.choice(["iata:FRA", "x:y", "icao:EDDF", "a" * rng.choice([1, 5, 200]) + ":K", ":", "m:"])
            out.append((["/usr/bin/env", "TZMAP_DIR=/" + "a" * max(0, n_ - 1), T(rng.choice(["dconv", "dadd", "dzone", "dround"])),
                         "--zone" if rng.random() < .7 else "--from-zone", spec, "2012-01-01T00:00:00", "+1d"], b"", "tzmap-dir-length"))
            continue
        if rng.random() < .06:
            # literal text that ends within a few bytes of the printers' buffers (256 bytes and powers of two), then a field
            L = rng.choice([120, 128, 225, 240, 250, 256, 500, 512, 1010, 1024, 4080]) + rng.randrange(-12, 13)
            spec = rng.choice(["%T", "%S", "%d", "%F", "%FT%T", "%Y-%m-%d", "%dd %S", "%db", "%s", "%rS", "%A", "%B %dth", "%H:%M:%S.%N", "%Z", "%OY"])
            f3 = rng.choice(["x", "-", "ab ", "%%", "€"]) * max(1, L) + spec
            tool = rng.choice(["ddiff", "ddiff", "dconv", "dadd", "dround", "dseq", "dzone"])
            if tool == "ddiff":
                av = [T("ddiff"), "-f", f3, "1970-01-01T00:00:00", rng.choice(["2020-01-01T00:00:00", "1969-12-31T23:59:59", "4000-01-01T01:02:03"])]
            elif tool == "dconv":
                av = [T("dconv"), "-f", f3, rng.choice(["2012-03-04T12:13:14", "2012-03-04", "12:13:14"])]
            elif tool == "dadd":
                av = [T("dadd"), "-f", f3, "2012-03-04T12:13:14", "+1d"]
            elif tool == "dround":
                av = [T("dround"), "-f", f3, "2012-03-04T12:13:14", "Mon"]
            elif tool == "dseq":
                av = [T("dseq"), "-f", f3, "2012-03-04", "2012-03-06"]
            else:
                av = [T("dconv"), "--zone", "Europe/Berlin", "-f", f3, "2012-03-04T12:13:14"]
            out.append((av, b"", "edge-format"))
            continue
        if rng.random() < .06:
            # backslash escapes in formats (-e)
            f2 = (fmt if isinstance(fmt, bytes) else fmt.encode("utf-8", "surrogateescape")) + rng.choice([b"\\", b"\\n", b"\\t\\", b"\\q"])
            out.append(([T(rng.choice(["dconv", "dadd", "dround", "dseq", "strptime"])), "-e", "-f", f2, "--", gen.rand_value_text(rng), "1"], b"", "backslash-e"))
        elif k == 0:
            out.append(([T("dconv"), "-f", fmt, "--", txt], b"", "dconv-f-arg"))
        elif k == 1:
            out.append(([T("dconv"), "-i", fmt, "--", txt], b"", "dconv-i-arg"))
        elif k == 2:
            out.append(([T("dconv"), "-f", fmt] + (["-S"] if rng.random() < .5 else []), stdin, "dconv-stdin"))
        elif k == 3:
            out.append(([T("dconv"), "-i", fmt] + (["-S"] if rng.random() < .5 else []), stdin, "dconv-i-stdin"))
        elif k == 4:
            d = gen.rand_duration(rng)
            out.append(([T("dadd"), "--", txt] + [d if isinstance(d, str) else d.replace(b"\0", b"\x01") or b"x"], b"", "dadd-arg"))
        elif k == 5:
            d = gen.rand_duration(rng)
            out.append(([T("dadd"), "-f", fmt, "--", d if isinstance(d, str) else d.replace(b"\0", b"\x01") or b"x"], stdin, "dadd-stdin"))
        elif k == 6:
            out.append(([T("ddiff"), "-f", fmt, "--", gen.rand_value_text(rng), txt], b"", "ddiff-arg"))
        elif k == 7:
            out.append(([T("ddiff"), "-f", fmt, "--", gen.rand_value_text(rng)], stdin, "ddiff-stdin"))
        elif k == 8:
            d = gen.rand_duration(rng)
            out.append(([T("dround"), "-f", fmt, "--", txt, d if isinstance(d, str) else d.replace(b"\0", b"\x01") or b"x"], b"", "dround-arg"))
        elif k == 9:
            e = rng.choice(["<", ">", "<=", ">=", "=", "!=", "", "%Y<", "%a=", "!", "(", "&&", "||"]) + (txt if isinstance(txt, str) else "x")
            if rng.random() < .3:
                e = e + rng.choice([" && ", " || ", "&&", "||", ")", " ! "]) + rng.choice(["<", ">"]) + gen.rand_value_text(rng)
            out.append(([T("dgrep"), "--", e], stdin, "dgrep"))
        elif k == 10:
            z = rng.choice(["Europe/Berlin", "UTC", "TAI", "GPS", "+01:00", "-12:34", "+99:99", "+1", "Nowhere/Land", "../../etc/passwd",
                            "x" * 300, "MAP:KEY", ":", "a:b:c", "+", "-", ""]) if rng.random() < .8 else fmt
            out.append(([T("dconv"), "--zone", z, "-f", "%FT%T%Z", "--", gen.rand_value_text(rng)], b"", "zone-arg"))
        elif k == 11 and rng.random() < .5:
            # an existing zone under a path padded to the neighbourhood of dzone's 256 byte line buffer
            n = rng.choice([200, 225, 228, 229, 230, 231, 232, 240, 254, 255, 256, 257, 300])
            zn = "Europe/Berlin"
            pad = max(0, n - len(zn))
            out.append(([T("dzone"), "./" * (pad // 2) + "/" * (pad % 2) + zn, rng.choice(["2000-01-01T00:00:00", "--next", txt])], b"", "dzone-longpath"))
        elif k == 11:
            out.append(([T("dzone"), rng.choice(["Europe/Berlin", "x" * 300, "Asia/Tokyo"]),
                         rng.choice(["--next", "--prev", ""]) or "Asia/Tokyo", txt], b"", "dzone"))
        elif k == 12:
            out.append(([T("dtest"), "-i", fmt, "--", txt, rng.choice(["--lt", "--eq", "--cmp"]), gen.rand_value_text(rng)], b"", "dtest"))
        else:
            out.append(([T("strptime"), "-i", fmt if isinstance(fmt, str) else "%F", "-f", "%F %T"], stdin, "strptime"))
    return out


def tool_task(task):
    bindir, seed, n = task
    import random
    rng = random.Random(seed)
    sh = Shard()
    for argv, stdin, cls in tool_cases(rng, bindir, n):
        argv = [(a if isinstance(a, bytes) else a.encode("utf-8", "surrogateescape")).replace(b"\0", b"\x01") for a in argv]
        r = run(argv, stdin=stdin, cpu=10, wall=60, max_out=4 << 20, env={"VERIF_CANARY_ENV": CANARY, "SHELL": "/bin/" + CANARY})
        sh.procs += 1
        kind = r.san_kind()
        if kind is None and r.sig is not None:
            kind = "cpu-limit" if r.cpu_exceeded else "wall-timeout" if r.timed_out else "signal%d" % r.sig
        if kind == "wall-timeout":
            sh.extra["inconclusive_wall_timeouts"] += 1
            continue
        if kind == "cpu-limit":
            # bounded progress: once more with a 20x budget before calling it a hang
            r = run(argv, stdin=stdin, cpu=200, wall=400, max_out=4 << 20, env={"VERIF_CANARY_ENV": CANARY, "SHELL": "/bin/" + CANARY})
            sh.procs += 1
            if r.sig is None and not r.san_kind():
                sh.extra["slow_but_terminating"] += 1
                kind = None
        if kind:
            sh.bad("tool-safety", "tool:%s:%s" % (cls, kind), "%s: %s" % (kind, core.shq(r.argv)[:300]),
                   res_replay(r), cls=(cls, "died", kind.split("@")[0]))
            continue
        if CANARY.encode() in r.out:
            sh.bad("tool-leak", "tool:%s:env-leak" % cls, "process environment leaks into the output: %s -> %r" %
                   (core.shq(r.argv)[:300], r.out[:200]), res_replay(r), cls=(cls, "leak"))
            continue
        if cls == "needleless-sed":
            # a line without a digit holds no value of a digit-only format: sed mode must hand it on untouched
            il = stdin.split(b"\n")[:-1]
            ol = r.out.split(b"\n")[:-1]
            badl = None
            if len(il) != len(ol):
                badl = ("line count %d -> %d" % (len(il), len(ol)))
            else:
                for a_, b_ in zip(il, ol):
                    if not any(48 <= ch <= 57 for ch in a_) and a_ != b_:
                        badl = "%r came out as %r" % (a_[:40], b_[:40])
                        break
            if badl:
                sh.bad("tool-transparent", "tool:needleless-sed:changed", "%s: %s" % (core.shq(r.argv)[:200], badl), res_replay(r), cls=(cls, "changed"))
                continue
        if r.truncated:
            sh.bad("tool-safety", "tool:%s:output-cap" % cls, "more than 4 MiB of output: %s" % core.shq(r.argv)[:300],
                   res_replay(r), cls=(cls, "flood"))
            continue
        sh.ok("tool-safety", (cls, "rc%s" % r.rc))
    return sh


_VG = re.compile(rb"==\d+== (Conditional jump or move depends on uninitialised value|Use of uninitialised value|"
                 rb"Invalid (?:read|write|free)[^\n]*|Syscall param [^\n]*uninitialised[^\n]*|Mismatched free[^\n]*|"
                 rb"Source and destination overlap[^\n]*|Argument '[^\n]*fishy[^\n]*|Process terminating[^\n]*)"
                 rb"[^\n]*\n(?:==\d+==\s+(?:at|by) 0x[0-9A-F]+: (\S+)[^\n]*\n)?(?:==\d+==\s+(?:at|by) 0x[0-9A-F]+: (\S+))?")


def memcheck_task(task):
    """the same hostile tool invocations on the uninstrumented build under valgrind memcheck: uninitialised-value use and
    invalid accesses ASan's red zones cannot see (reads of stale stack/heap contents)"""
    plaindir, seed, n = task
    import random
    rng = random.Random(seed)
    sh = Shard()
    for argv, stdin, cls in tool_cases(rng, plaindir, n):
        argv = [(a if isinstance(a, bytes) else a.encode("utf-8", "surrogateescape")).replace(b"\0", b"\x01") for a in argv]
        vg = [b"valgrind", b"-q", b"--error-exitcode=97", b"--track-origins=no", b"--leak-check=no", b"--num-callers=8"]
        r = run(vg + argv, stdin=stdin, cpu=120, wall=600, max_out=4 << 20, env={"VERIF_CANARY_ENV": CANARY})
        sh.procs += 1
        if r.timed_out or r.cpu_exceeded:
            sh.extra["inconclusive_memcheck_timeouts"] += 1
            continue
        m = _VG.search(r.err or b"")
        if m is None and r.rc != 97:
            sh.ok("memcheck", ("memcheck", cls, "clean"))
            continue
        if m is None:
            kind, fn = "error", "?"
        else:
            kind = m.group(1).decode("latin-1").split(" of size")[0].replace(" ", "-")[:48]
            fns = [g.decode("latin-1") for g in (m.group(2), m.group(3)) if g]
            # skip libc frames (strlen & co. are reported inside the replacement functions)
            fn = next((f for f in fns if not f.startswith(("__", "str", "mem", "_IO", "vfprintf", "printf", "fwrite", "puts"))), fns[0] if fns else "?")
        sh.bad("memcheck", "memcheck:%s:%s@%s" % (cls, kind, fn), "valgrind memcheck: %s in %s: %s" % (kind, fn, core.shq(argv)[:300]),
               dict(argv=[a.decode("latin-1") for a in vg + argv], stdin=stdin.decode("latin-1"), variant="plain", stderr=(r.err or b"")[:3000].decode("latin-1")),
               cls=("memcheck", cls, kind))
    return sh


def memcheck_drv_task(task):
    """hostile library requests through the driver of the uninstrumented build under memcheck, one process per batch"""
    plaindir, seed, n = task
    import random
    rng = random.Random(seed)
    sh = Shard()
    cases = mk_requests(rng, n)
    B = 250
    for i in range(0, len(cases), B):
        chunk = cases[i:i + B]
        stdin = ("\n".join(c[1] for c in chunk) + "\nQ\n").encode("latin-1", "replace")
        r = run(["valgrind", "-q", "--error-exitcode=97", "--track-origins=no", "--leak-check=no", "--num-callers=8",
                 str(plaindir / "dutdrv")], stdin=stdin, cpu=300, wall=900, max_out=16 << 20)
        sh.procs += 1
        if r.timed_out or r.cpu_exceeded:
            sh.extra["inconclusive_memcheck_timeouts"] += 1
            continue
        errs = list(_VG.finditer(r.err or b""))
        answered = r.out.count(b"\n")
        if not errs and r.rc != 97:
            sh.ok("memcheck", ("memcheck", "dutdrv", "clean"), n=answered)
            continue
        seen = set()
        for m in errs or [None]:
            if m is None:
                kind, fn = "error", "?"
            else:
                kind = m.group(1).decode("latin-1").split(" of size")[0].replace(" ", "-")[:48]
                fns = [g.decode("latin-1") for g in (m.group(2), m.group(3)) if g]
                fn = next((f for f in fns if not f.startswith(("__GI", "str", "mem", "_IO", "vfprintf", "printf", "fwrite", "puts"))),
                          fns[0] if fns else "?")
            if (kind, fn) in seen:
                continue
            seen.add((kind, fn))
            sh.bad("memcheck", "memcheck:dutdrv:%s@%s" % (kind, fn), "valgrind memcheck: %s in %s during a batch of %d driver "
                   "requests" % (kind, fn, len(chunk)),
                   dict(argv=["valgrind", "-q", str(plaindir / "dutdrv")], stdin=stdin.decode("latin-1")[:200000], variant="plain",
                        stderr=(r.err or b"")[:4000].decode("latin-1")), cls=("memcheck", "dutdrv", kind))
    return sh


def _dispatch(t):
    return {"drv": drv_task, "tool": tool_task, "vg": memcheck_task, "vgdrv": memcheck_drv_task}[t[0]](t[1])


def main(tier, seed):
    ctx = core.Ctx("C10", tier, seed)
    bindir = ctx.bin("san")
    quick = tier == "quick"
    tasks = []
    scale = int(os.environ.get("VERIF_C10_SCALE", "64" if quick else "640"))
    for i in range(scale):
        tasks.append(("drv", (bindir, seed * 1000003 + i, 4000 if quick else 12000)))
    for i in range(scale):
        tasks.append(("tool", (bindir, seed * 1000003 + 5000 + i, 90 if quick else 300)))
    if scale >= 64:
        plaindir = ctx.bin("plain")
        for i in range(16 if quick else 160):
            tasks.append(("vg", (plaindir, seed * 1000003 + 9000 + i, 25 if quick else 60)))
        for i in range(16 if quick else 96):
            tasks.append(("vgdrv", (plaindir, seed * 1000003 + 12000 + i, 500 if quick else 1500)))
    for sh in core.pmap(_dispatch, tasks):
        ctx.merge(sh)
    ctx.rule = ("events = one library call through dutdrv (dt_strpdt, dt_strfdt with output buffers of every size class "
                "0..300, format->parse round trip from 11 representations, dt_strpdtdur/dt_strfdtdur, dt_io_strpdtdur+"
                "dt_dtadd) or one tool invocation (dconv, dadd, ddiff, dround, dgrep, dzone, dtest, strptime; arguments and "
                "stdin) with hostile material: formats truncated inside a specifier (trailing %%, %%_, %%O ...), "
                "255/256/257-byte formats, random bytes, high-bit first byte, special names off by one; texts truncated, "
                "overlong digit runs, +-2^31/2^63, control bytes, out-of-range fields. Monitors: ASan/UBSan/probe "
                "reports, death signals, CPU limit, output cap, return value <= buffer size, environment canary must "
                "not appear in any output; 'memcheck' = a sample of the same hostile tool invocations and driver requests on the uninstrumented -O2 "
                "build under valgrind memcheck (uninitialised-value use, invalid accesses inside live blocks' neighbourhood, "
                "overlapping copies). distinct_nontrivial = distinct (entry point, input class, outcome)")
    ctx.assumptions = ["argv strings cannot contain NUL; NUL bytes reach the library through dutdrv only",
                       "leaks (LeakSanitizer) are not part of the property"]
    ctx.min_evals = 2000
    return ctx.finish()


if __name__ == "__main__":
    sys.exit(main("quick", 1))
