"""C15 - dateseq emits exactly the arithmetic progression between its bounds"""
import sys

from .. import core
from ..core import Shard, run, res_replay
from ..oracle import cal, dur
from .. import addsweep

SKIPS = [None, "sat,sun", "mon", "fri,sat", "mon,tue,wed,thu,fri", "sun", "mon,tue,wed,thu,fri,sat,sun", "wed"]
WD = {"mon": 0, "tue": 1, "wed": 2, "thu": 3, "fri": 4, "sat": 5, "sun": 6}


def expected_alt(o1, o2, step_days, skip, alt_days):
    """--alt-inc: a value that falls on a skipped weekday is moved by the alternative increment until it does not (or
    leaves the range), the progression goes on from there; same direction as the increment only"""
    skipset = set(WD[x] for x in skip.split(","))
    if len(skipset) == 7:
        return None
    lo, hi = min(o1, o2), max(o1, o2)
    inr = lambda x: lo <= x <= hi
    sk = lambda x: (x - 1) % 7 in skipset

    def this(x):
        if not sk(x) and inr(x):
            return x
        while True:
            x += alt_days
            if not (sk(x) and inr(x)):
                return x
    out = []
    cur = this(o1)
    while inr(cur) and len(out) < 200000:
        out.append(cur)
        cur = this(cur + step_days)
    return out


def hms(s):
    s %= 86400
    return "%02d:%02d:%02d" % (s // 3600, s // 60 % 60, s % 60)


def expected_dates(o1, o2, unit, n, skip, from_last):
    """-> list of ordinals or None when the case is outside the judged domain"""
    if n == 0:
        return "refused"
    out = []
    skipset = set(WD[x] for x in skip.split(",")) if skip else set()

    def step(base, k):
        if unit == "d":
            return base + k * n
        if unit == "w":
            return base + 7 * k * n
        if unit == "mo":
            return dur.add_months_ymd(base, k * n)
        if unit == "y":
            return dur.add_months_ymd(base, 12 * k * n)
        if unit == "b":
            return base if k == 0 else dur.nth_bday_after(base, k * n)
        raise KeyError(unit)
    up = n > 0
    t = step(o1, 1)
    if t is None or not dur.in_range(t):
        # FIRST + INC leaves the calendar: the direction trial has no defined outcome
        return None
    if (up and o1 > o2) or (not up and o1 < o2):
        return []
    if not from_last:
        k = 0
        while True:
            t = step(o1, k)
            if t is None or not dur.in_range(t):
                break
            if (up and t > o2) or (not up and t < o2):
                break
            out.append(t)
            k += 1
            if k > 200000:
                return None
    else:
        k = 0
        while True:
            t = step(o2, -k)
            if t is None or not dur.in_range(t):
                break
            if (up and t < o1) or (not up and t > o1):
                break
            out.append(t)
            k += 1
            if k > 200000:
                return None
        out.reverse()
    return [t for t in out if (t - 1) % 7 not in skipset]


def case_task(task):
    bindir, seed, ncases = task
    import random
    rng = random.Random(seed)
    sh = Shard()
    bnd = cal.boundary_ordinals(5)
    for _ in range(ncases):
        kind = rng.choice(["date", "date", "date", "time", "dt"])
        argv = [str(bindir / "dseq")]
        alt_txt = None
        if kind == "date" and rng.random() < .06:
            # bounds given as counts of seconds since 1970 (midnights), stepped by days or weeks
            unit = rng.choice(["d", "w"])
            n = rng.choice([1, 2, 3, -1, -2, -5])
            o1 = rng.randrange(cal.ORD_MIN + 800, cal.ORD_MAX - 2000)
            span = rng.choice([0, 1, 5, 20, 60]) * abs(n) * (7 if unit == "w" else 1) + rng.randrange(0, 7)
            o2 = o1 + (span if n > 0 else -span)
            exp = expected_dates(o1, o2, unit, n, None, False)
            if exp is None:
                continue
            argv += ["-i", "%s", "-f", "%s", "--", addsweep.ktext("epoch", o1)[0], "%d%s" % (n, unit), addsweep.ktext("epoch", o2)[0]]
            exp_txt = [addsweep.ktext("epoch", t) for t in exp]
            cls = ("date", "epoch", unit, "+" if n > 0 else "-", "noskip", "fwd")
        elif kind == "time" and rng.random() < .06:
            # nanosecond steps between two times of day, across midnight too
            stepns = rng.choice([250000000, 400000000, 500000000, 1500000000]) * rng.choice([1, 1, -1])
            t1 = rng.choice([86399, 86398, 0, 43200, rng.randrange(86400)])
            dsec = rng.choice([1, 2, 3, 5])
            t2 = (t1 + (dsec if stepns > 0 else -dsec)) % 86400
            from_last = False
            e, k = [], 0
            tot = dsec * 10 ** 9
            while abs(k * stepns) <= tot:
                v = (t1 * 10 ** 9 + k * stepns) % (86400 * 10 ** 9)
                e.append(("%s.%09d" % (hms(v // 10 ** 9), v % 10 ** 9),))
                k += 1
            argv += [hms(t1), "%dns" % stepns, hms(t2), "-f", "%T.%N"]
            exp_txt = e
            cls = ("time", "ns", "+" if stepns > 0 else "-", "wrap" if (t2 < t1) != (stepns < 0) else "nowrap", "fwd")
        elif kind == "date":
            K = rng.choice(["ymd", "ymd", "ymd", "ymd", "ymd", "ywd", "ywd", "ymcw", "ymcw", "yd", "yd", "bizda"])
            # (bounds written as business days step by business days, also when no increment is given)
            unit = rng.choice(["d", "d", "w", "mo", "y", "b"]) if K == "ymd" else "b" if K == "bizda" else rng.choice(["d", "d", "w"])
            n = rng.choice([1, 1, 2, 3, 7, -1, -2, 0]) if rng.random() < .9 else rng.choice([30, 365, -30, 400])
            o1 = rng.choice(bnd) if rng.random() < .7 else rng.randrange(cal.ORD_MIN, cal.ORD_MAX - 800)
            o1 = min(o1, cal.ORD_MAX - 40000)
            per = {"d": 1, "w": 7, "mo": 30, "y": 365, "b": 1.4}[unit] * max(abs(n), 1)
            span = int(rng.choice([0, 1, 2, 5, 20, 60, 200, 400]) * per + rng.randrange(0, int(per) + 1))
            wrongdir = rng.random() < .08
            o2 = o1 + (span if (n >= 0) != wrongdir else -span)
            if not dur.in_range(o2):
                continue
            if unit == "b":
                # business-day steps start on a business day (bizda semantics of weekend starts are C07's)
                while not dur.is_bday(o1):
                    o1 += 1
                if o2 < o1 and n > 0:
                    o2 = o1
                if K == "bizda":
                    while not dur.is_bday(o2):
                        o2 -= 1
                    if not dur.in_range(o2):
                        continue
            skip = rng.choice(SKIPS) if unit in ("d", "w", "mo", "y") and rng.random() < .4 else None
            from_last = rng.random() < .25 and unit != "b"
            a, b = addsweep.ktext(K, o1)[0], addsweep.ktext(K, o2)[0]
            default_inc = (unit == "d" or K == "bizda") and n == 1 and rng.random() < .5
            argv += [a] + ([] if default_inc else ["%d%s" % (n, unit)]) + [b]
            if skip:
                argv += ["--skip", skip]
            if from_last:
                argv += ["--compute-from-last"]
            exp = expected_dates(o1, o2, unit, n, skip, from_last)
            altc = None
            if skip and not from_last and unit in ("d", "w") and n != 0 and exp not in (None, "refused") and rng.random() < .5 \
                    and (o2 - o1) * n >= 0 and dur.in_range(o1 - 8) and dur.in_range(o2 + 8) and dur.in_range(o1 + 8) and dur.in_range(o2 - 8):
                # an alternative increment for values on skipped weekdays; nought (0d, 0) switches it off
                altc = rng.choice(["1d", "2d", "0d", "0", "0d0h"]) if n > 0 else rng.choice(["-1d", "-3d", "0d", "0"])
                argv += ["--alt-inc=" + altc]
                if altc.strip("0dh") != "" and altc != "0":
                    exp = expected_alt(o1, o2, n * (7 if unit == "w" else 1), skip, int(altc[:-1]))
            if exp is None:
                continue
            exp_txt = exp if exp == "refused" else [addsweep.ktext(K, t) for t in exp]
            cls = ("date", K, unit, "+" if n > 0 else "-" if n < 0 else "0", ("skip" if skip else "noskip") + ("+alt" + ("0" if altc.strip("0dh") == "" else "") if altc else ""),
                   "from-last" if from_last else "fwd")
        elif kind == "time":
            form = rng.choice(["inc", "inc", "inc", "compound", "guess", "big"])
            from_last = rng.random() < .25 and form != "guess"
            t1 = rng.choice([0, 3600, 36000, 43200, 82800, 86399, rng.randrange(86400)])
            if form == "guess":
                # FIRST LAST: hour steps between full hours, minute steps between full minutes, else seconds
                g = rng.choice([3600, 60, 1])
                t1 -= t1 % g
                t2 = (t1 + rng.choice([1, 2, 5, 30, -1, -3, -20]) * g) % 86400
                if t2 == t1:
                    continue
                step = 3600 if t1 % 3600 == 0 and t2 % 3600 == 0 and t1 // 3600 != t2 // 3600 else \
                    60 if t1 % 60 == 0 and t2 % 60 == 0 and t1 // 60 % 60 != t2 // 60 % 60 else 1
                sec = step if t1 < t2 else -step
                unit, inc, n = "guess", None, 1
            else:
                if form == "compound":
                    h, m = rng.choice([1, 2, 5]), rng.choice([1, 15, 30, 45])
                    sg = rng.choice([1, 1, -1])
                    sec = sg * (h * 3600 + m * 60)
                    inc = "%dh%dm" % (sg * h, sg * m)
                    unit, n = "hm", sg
                elif form == "big":
                    unit = "h"
                    n = rng.choice([13, 23, 24, 25, 47, 49, 200, -13, -24, -25, -49])
                    sec, inc = n * 3600, "%dh" % n
                else:
                    unit = rng.choice(["h", "m", "s"])
                    n = rng.choice([1, 2, 5, 15, 30, 90, 1000, -1, -7, -30, 0])
                    sec = n * {"h": 3600, "m": 60, "s": 1}[unit]
                    inc = "%d%s" % (n, unit)
                cnt = rng.choice([0, 1, 3, 10, 40])
                t2u = t1 + cnt * sec + (rng.randrange(0, abs(sec)) if sec and rng.random() < .5 else 0) * (1 if sec >= 0 else -1)
                if form == "big" or rng.random() < .2:
                    t2u = rng.randrange(86400)
                if abs(t2u - t1) >= 86400:
                    continue
                t2 = t2u % 86400
            # equal bounds: 'around the clock until LAST is passed' is met by one element and by a full circle alike,
            # both are accepted (with --compute-from-last the circle has to end on LAST all the same)
            equal = t1 == t2
            if equal and (n == 0 or form == "guess"):
                continue
            argv += [hms(t1)] + ([inc] if inc else []) + [hms(t2)]
            if from_last:
                argv += ["--compute-from-last"]
            if n == 0:
                exp_txt = "refused"
            else:
                # run around the clock in the direction of INC until LAST is passed
                L = t2
                if sec > 0 and (t2 < t1 or equal):
                    L = t2 + 86400
                if sec < 0 and (t2 > t1 or equal):
                    L = t2 - 86400
                if equal:
                    alt_txt = [(hms(t1),)]
                k, e = 0, []
                if not from_last:
                    while (sec > 0 and t1 + k * sec <= L) or (sec < 0 and t1 + k * sec >= L):
                        e.append((hms(t1 + k * sec),))
                        k += 1
                else:
                    while (sec > 0 and L - k * sec >= t1) or (sec < 0 and L - k * sec <= t1):
                        e.append((hms(L - k * sec),))
                        k += 1
                    e.reverse()
                exp_txt = e
            cls = ("time", unit, "+" if n > 0 else "-" if n < 0 else "0", "wrap" if (t2 < t1) != (sec < 0) else "nowrap",
                   "from-last" if from_last else "fwd")
        else:
            K = rng.choice(["ymd", "ymd", "ywd"])
            unit = rng.choice(["h", "m", "s", "d", "mo", "dh"]) if K == "ymd" else rng.choice(["h", "m", "d"])
            n = rng.choice([1, 6, 12, 30, 90, -1, -6]) if unit != "mo" else rng.choice([1, 2, -1, 12])
            from_last = rng.random() < .25
            skip = rng.choice(SKIPS) if unit in ("h", "d") and rng.random() < .3 else None
            skipset = set(WD[x] for x in skip.split(",")) if skip else set()
            o1 = min(rng.choice(bnd), cal.ORD_MAX - 4000)
            s1 = rng.choice([0, 43200, 79200, 86399, rng.randrange(86400)])
            cnt = rng.choice([0, 1, 3, 10, 50])
            civ = lambda e: addsweep.ktext(K, e // 86400 + cal.ORD_UNIX)[0] + "T" + hms(e % 86400)
            e1 = (o1 - cal.ORD_UNIX) * 86400 + s1
            if unit == "mo":
                sec = None
                o2 = dur.add_months_ymd(o1, cnt * n)
                if o2 is None or not dur.in_range(o2):
                    continue
                o2 += rng.choice([0, 0, 1, -1, 5])
                if (n > 0 and o2 < o1) or (n < 0 and o2 > o1):
                    o2 = o1
                e2 = (o2 - cal.ORD_UNIX) * 86400 + rng.choice([s1, s1, 0, 86399])
                inc = "%dmo" % n
                vals = []
                k = 0
                while k < 1000:
                    ok_ = dur.add_months_ymd(o2 if from_last else o1, (-k if from_last else k) * n)
                    if ok_ is None or not dur.in_range(ok_):
                        break
                    if from_last:
                        v = (ok_ - cal.ORD_UNIX) * 86400 + e2 % 86400
                        if (n > 0 and v < e1) or (n < 0 and v > e1):
                            break
                    else:
                        v = (ok_ - cal.ORD_UNIX) * 86400 + s1
                        if (n > 0 and v > e2) or (n < 0 and v < e2):
                            break
                    vals.append(v)
                    k += 1
                if from_last:
                    vals.reverse()
            else:
                if unit == "dh":
                    sg = 1 if n > 0 else -1
                    dd, hh = rng.choice([1, 2]), rng.choice([1, 12, 23])
                    sec = sg * (dd * 86400 + hh * 3600)
                    inc = "%dd%dh" % (sg * dd, sg * hh)
                else:
                    sec = n * {"h": 3600, "m": 60, "s": 1, "d": 86400}[unit]
                    inc = "%d%s" % (n, unit)
                e2 = e1 + cnt * sec + (rng.randrange(0, abs(sec)) if rng.random() < .5 else 0) * (1 if sec > 0 else -1)
                k, vals = 0, []
                if not from_last:
                    while (sec > 0 and e1 + k * sec <= e2) or (sec < 0 and e1 + k * sec >= e2):
                        vals.append(e1 + k * sec)
                        k += 1
                else:
                    while (sec > 0 and e2 - k * sec >= e1) or (sec < 0 and e2 - k * sec <= e1):
                        vals.append(e2 - k * sec)
                        k += 1
                    vals.reverse()
            if not dur.in_range(e2 // 86400 + cal.ORD_UNIX) or e2 // 86400 + cal.ORD_UNIX > cal.ORD_MAX - 700:
                continue
            argv += [civ(e1), inc, civ(e2)]
            if skip:
                argv += ["--skip", skip]
            if from_last:
                argv += ["--compute-from-last"]
            exp_txt = [(civ(v),) for v in vals if (v // 86400 + cal.ORD_UNIX - 1) % 7 not in skipset]
            cls = ("dt", K, unit, "+" if n > 0 else "-", "crosses-midnight" if e1 // 86400 != e2 // 86400 else "same-day",
                   "skip" if skip else "noskip", "from-last" if from_last else "fwd")
        nexp = 0 if exp_txt == "refused" else len(exp_txt)
        cap = (nexp + 64) * 40 + 65536
        r = run(argv, cpu=5, wall=60, max_out=cap)
        sh.procs += 1
        kindd = r.san_kind()
        if kindd:
            sh.bad("seq", "seq:%s:%s" % (cls[0], kindd), "%s: %s" % (kindd, core.shq(argv)), res_replay(r), cls=cls + ("san",))
            continue
        got = r.out.decode("latin-1").split("\n")
        if got and got[-1] == "":
            got.pop()
        if r.cpu_exceeded or r.truncated:
            sh.bad("seq", "seq:%s:%s:%s:endless" % (cls[0], cls[1] if cls[0] != "date" else cls[2], cls[2] if cls[0] != "date" else cls[3]),
                   "%s does not stop: %d+ lines where %d are expected (cpu limit hit: %s)" %
                   (core.shq(argv), len(got), nexp, r.cpu_exceeded), res_replay(r, expected=nexp), cls=cls + ("endless",))
            continue
        if exp_txt == "refused":
            if r.rc != 0 and not got:
                sh.ok("seq", cls + ("refused",))
            else:
                sh.bad("seq", "seq:%s:zero-inc-not-refused" % cls[0], "%s: rc=%s, %d lines" % (core.shq(argv), r.rc, len(got)),
                       res_replay(r), cls=cls)
            continue
        ok = len(got) == len(exp_txt) and all(g in e for g, e in zip(got, exp_txt))
        if not ok and alt_txt is not None and len(got) == len(alt_txt) and all(g in e for g, e in zip(got, alt_txt)):
            ok = True
        if ok:
            sh.ok("seq", cls + ("empty" if not got else "normal",))
        else:
            i = next((i for i, (g, e) in enumerate(zip(got, exp_txt)) if g not in e), min(len(got), len(exp_txt)))
            what = "count" if all(g in e for g, e in zip(got, exp_txt)) else "value"
            sh.bad("seq", "seq:%s:%s" % (":".join(cls), what),
                   "%s: %d lines, expected %d; first difference at element %d: %r vs %r" %
                   (core.shq(argv), len(got), len(exp_txt), i, got[i] if i < len(got) else None,
                    exp_txt[i][0] if i < len(exp_txt) else None),
                   res_replay(r, expected=[e[0] for e in exp_txt][:60]), cls=cls)
        if got:
            sh.sample(dict(cmd=core.shq(argv), first=got[0], last=got[-1], n=len(got)), cap=2)
    return sh


def inapplicable_task(task):
    """increments that can never reach LAST must give a refused or empty run, never an endless one"""
    bindir, = task
    sh = Shard()
    cases = [["12:00:00", "1d", "13:00:00"], ["12:00:00", "1mo", "13:00:00"], ["12:00:00", "1w", "12:30:00"],
             ["2012-01-01", "0d", "2012-01-05"], ["2012-01-01", "0mo", "2013-01-05"], ["10:00:00", "0s", "11:00:00"],
             ["2012-01-05", "1d", "2012-01-01"], ["2012-01-01", "-1d", "2012-01-05"], ["2012-01-01", "-1mo", "2012-06-01"],
             ["2012-01-01T00:00:00", "0h", "2012-01-01T05:00:00"], ["2012-01-01", "1y", "2011-01-01"],
             ["12:00:00", "1y", "13:00:00"], ["12:00:00", "1b", "13:00:00"]]
    for c in cases:
        argv = [str(bindir / "dseq")] + c
        r = run(argv, cpu=3, wall=60, max_out=1 << 16)
        sh.procs += 1
        n = r.out.count(b"\n")
        cls = ("inapplicable", c[1].lstrip("-0123456789"), "time" if ":" in c[0] and "T" not in c[0] else "date")
        if r.cpu_exceeded or r.truncated or n > 16:
            sh.bad("seq", "seq:endless:%s:%s" % (cls[2], cls[1]), "%s never stops (%d+ lines, cpu limit %s)" %
                   (core.shq(argv), n, r.cpu_exceeded), res_replay(r), cls=cls)
        elif r.san_kind():
            sh.bad("seq", "seq:inapplicable:%s" % r.san_kind(), core.shq(argv), res_replay(r), cls=cls)
        else:
            sh.ok("seq", cls + ("refused" if r.rc else "empty" if n == 0 else "short",))
    return sh


def _dispatch(t):
    return case_task(t[1]) if t[0] == "case" else inapplicable_task(t[1])


def main(tier, seed):
    ctx = core.Ctx("C15", tier, seed)
    bindir = ctx.bin("san")
    quick = tier == "quick"
    tasks = [("inapp", (bindir,))]
    for i in range(64 if quick else 640):
        tasks.append(("case", (bindir, seed * 1000003 + i, 100 if quick else 250)))
    for sh in core.pmap(_dispatch, tasks):
        ctx.merge(sh)
    ctx.rule = ("events = one dseq invocation, its full output compared line by line with the model {FIRST + k*INC} "
                "(months/years taken from FIRST in one step and clamped; business days over Mon-Fri; --compute-from-last "
                "anchored at LAST; skipped weekdays dropped; times around the clock in the direction of INC; date-times on "
                "the epoch scale); kinds: dates in ymd/ywd/ymcw/yd, times, date-times; INC in {d,w,mo,y,b,h,m,s} x "
                "{+-1,2,3,7,15,30,90,365,0}; spans 0..400 elements; wrong-direction and zero increments; bounded progress: "
                "more than expected+16 lines or 5 CPU-seconds is 'endless'. distinct_nontrivial = distinct (kind, calendar, "
                "unit, sign, skip, from-last, outcome)")
    ctx.assumptions = ["compound date increments (1mo1d) and single-argument forms are not judged",
                       "--alt-inc is driven for day/week steps in the direction of INC only (nought switches it off)", "time bounds with FIRST == LAST: one element and a full circle (ending on LAST under --compute-from-last) both meet the statement",
                       "FIRST + INC must lie inside the supported calendar range",
                       "business-day increments are judged from business-day starts"]
    ctx.min_evals = 2000
    return ctx.finish()


if __name__ == "__main__":
    sys.exit(main("quick", 1))
