"""C01 - calendar conversions agree with the proleptic Gregorian / ISO 8601 calendar.

Every day of 1601-01-01..4095-12-31 is produced BY THE ORACLE in a source
representation, pushed through the real dconv (ASan+UBSan build) and every
printed field is compared with what datetime.date defines for that day.
"""
import sys

from .. import core
from ..core import Shard, run, align_lines, res_replay
from ..oracle import cal

BIGSPECS = cal.DATE_SPECS + ["%s"]
BIGFMT = "|".join(BIGSPECS)
NAMED = ["ymd", "ywd", "yd", "ymcw", "ldn", "jdn", "mdn"]

# source representation -> (text producer, extra dconv args)
SOURCES = {
    "ymd": (lambda d: d.ymd(), []),
    "ywd": (lambda d: d.ywd(), []),
    "yd": (lambda d: d.yd(), []),
    "ymcw": (lambda d: d.ymcw("07"), []),
    "ymcw0": (lambda d: d.ymcw("00"), []),
    "ldn": (lambda d: "%d" % d.ldn, ["-i", "ldn"]),
    "mdn": (lambda d: "%d" % d.mdn, ["-i", "mdn"]),
    "jdn": (lambda d: "%.1f" % (d.o + cal.JDN_OFF), ["-i", "jdn"]),
    # a Julian day number begins at noon: N.0 .. N.49 lie in the afternoon of the civil day that N - 0.5 starts
    "jdnnoon": (lambda d: "%d" % (d.o + cal.JDN_OFF + 0.5), ["-i", "jdn"]),
    # (the type is a single-precision float: a quarter of a day is all the resolution there is)
    "jdnpm": (lambda d: "%.2f" % (d.o + cal.JDN_OFF + 0.75), ["-i", "jdn"]),
    # year + week count + weekday in the two non-ISO week conventions
    "yUu": (lambda d: "%04d-%02d-%d" % (d.y, d.wk_U, d.iwd), ["-i", "%Y-%U-%u"]),
    "yWu": (lambda d: "%04d-%02d-%d" % (d.y, d.wk_W, d.iwd), ["-i", "%Y-%W-%u"]),
    # @N is only recognised as a command-line argument (the stream scanner
    # greps for digits and would drop the sign)
    "epoch": (lambda d: "@%d" % d.unix, "ARGS"),
}


def err_shape(got, exp):
    if got is None:
        return "refused"
    if got == "":
        return "empty"
    if got.strip("0Q-Wb:T") == "":
        return "zero"
    if got.startswith("Mir"):
        return "mir"
    return "wrong"


def cls3(d):
    if d.o > cal.ORD_MAX - 606:
        return "last606"
    if d.iy != d.y:
        return "isoyr"
    return "reg"


def sweep_task(task):
    """one dconv process: (bindir, src, tgt, ordinals) -> Shard"""
    bindir, src, tgt, ords, prop = task
    sh = Shard()
    mk, iargs = SOURCES[src]
    days = [cal.Day(o) for o in ords]
    lines = [mk(d) for d in days]
    fmt = BIGFMT if tgt == "big" else tgt
    argmode = iargs == "ARGS"
    argv = [str(bindir / "dconv")] + ([] if argmode else iargs) + ["-f", fmt]
    pos = 0
    guard = 0
    while pos < len(lines) and guard < 400:
        guard += 1
        if argmode:
            chunk = lines[pos:pos + 3000]
            r = run(argv + ["--"] + chunk, cpu=120, wall=600)
        else:
            chunk = lines[pos:]
            r = run(argv, stdin=("\n".join(chunk) + "\n").encode(), cpu=120, wall=600)
        sh.procs += 1
        outs, crash = align_lines(chunk, r)
        if r.sig is None:
            sh.check_san(r, "san", "conv:src=%s:tgt=%s:san" % (src, tgt))
        specs = BIGSPECS if tgt == "big" else [tgt]
        for k, got in enumerate(outs):
            d = days[pos + k]
            dcl = d.cls()
            if got is None:
                sig = "conv:src=%s:tgt=%s:err=refused:cls=%s" % (src, tgt, cls3(d))
                sh.bad("conv", sig, "dconv refuses oracle-made input %r (%s)" % (lines[pos + k], d.ymd()),
                       dict(argv=argv, input=lines[pos + k], day=d.ymd()), cls=(src, tgt, dcl))
                continue
            fields = got.split("|") if tgt == "big" else [got]
            if len(fields) != len(specs):
                sig = "conv:src=%s:tgt=%s:err=fieldcount:cls=%s" % (src, tgt, cls3(d))
                sh.bad("conv", sig, "output %r for %s has wrong shape" % (got, lines[pos + k]),
                       dict(argv=argv, input=lines[pos + k], observed=got), cls=(src, tgt, dcl))
                continue
            for sp, f in zip(specs, fields):
                exp = d.spec(sp)
                if src == "epoch" and sp in NAMED and f.endswith("T00:00:00"):
                    # an epoch value is a date-time: calendar names print the time too
                    f = f[:-9]
                elif src == "epoch" and sp in ("ldn", "mdn") and f.endswith(".000000"):
                    # ... and day numbers print the (zero) fraction of the day, as jdn always does
                    f = f[:-7]
                if f in exp:
                    sh.ok("conv", (src, sp, dcl))
                else:
                    sig = "conv:src=%s:tgt=%s:err=%s:cls=%s" % (src, sp, err_shape(f, exp), cls3(d))
                    sh.bad("conv", sig,
                           "day %s given as %s %r: dconv -f %s printed %r, calendar says %s" %
                           (d.ymd(), src, lines[pos + k], sp, f, "|".join(exp)),
                           dict(argv=argv[:-1] + [sp], input=lines[pos + k], day=d.ymd(),
                                expected=list(exp), observed=f), cls=(src, sp, dcl))
        if len(outs) and pos == 0 and outs[0] is not None:
            sh.sample(dict(cmd=core.shq(argv), input=lines[0], output=outs[0]), cap=1)
        if crash is None:
            if argmode:
                pos += len(chunk)
                continue
            break
        # process died / went silent at input index crash
        if crash == -1:
            sh.bad("conv", "conv:src=%s:tgt=%s:err=misaligned" % (src, tgt),
                   "more output lines than input lines", res_replay(r))
            break
        w = pos + crash
        kind = r.san_kind() or ("cpu" if r.cpu_exceeded else "timeout" if r.timed_out else
                                "signal%s" % r.sig if r.sig else "rc%s" % r.rc)
        d = days[w]
        sig = "conv:src=%s:tgt=%s:err=died:%s:cls=%s" % (src, tgt, kind, cls3(d))
        r.stdin = (lines[w] + "\n").encode()
        sh.bad("conv", sig, "dconv died (%s) at input %r" % (kind, lines[w]),
               res_replay(r, note="stdin reduced to the witness line"), cls=(src, tgt, d.cls()))
        pos = w + 1
    return sh


def chunks(seq, n):
    for i in range(0, len(seq), n):
        yield seq[i:i + n]


def main(tier, seed):
    ctx = core.Ctx("C01", tier, seed)
    bindir = ctx.bin("san")
    alld = list(range(cal.ORD_MIN, cal.ORD_MAX + 1))
    bnd = cal.boundary_ordinals()
    rnd = ctx.rng.sample(alld, 20000)
    tasks = []
    # (a) ymd source: every day of the domain, every target
    for tgt in ["big"] + NAMED:
        for ch in chunks(alld, 57000):
            tasks.append((bindir, "ymd", tgt, ch, "C01"))
    # (b) every other source
    if tier == "quick":
        other = sorted(set(bnd) | set(rnd))
    else:
        other = alld
    for src in SOURCES:
        if src == "ymd":
            continue
        for tgt in ["big"] + NAMED:
            days = other
            if src in ("jdnnoon", "jdnpm") and tgt == "jdn":
                continue        # (printed back as the number that was given)
            if tier == "quick" and tgt in ("ldn", "jdn", "mdn") and src not in ("ywd", "ymcw"):
                # day-number targets from the remaining sources: the first and last two years of the domain,
                # the years around the epochs of the day counts, and a slice of the rest
                days = [o for o in other if cal.Day(o).y in (1601, 1602, 1752, 1753, 1858, 1899, 1900, 1917, 1970, 2000, 4094, 4095)] + other[::40]
                days = sorted(set(days))
            for ch in chunks(days, 40000):
                tasks.append((bindir, src, tgt, ch, "C01"))
    # largest first for balance
    tasks.sort(key=lambda t: -len(t[3]))
    for sh in core.pmap(sweep_task, tasks):
        ctx.merge(sh)
    ctx.exhaustive = True
    ctx.rule = ("events = (day, source representation, target specifier) triples judged against "
                "datetime.date; ymd source: all 911,280 days x %d targets (exhaustive on the day "
                "dimension); other sources (%s): %d days (%s). distinct_nontrivial = distinct "
                "(source, target, day-class) with day-class from {feb29, century leap/non-leap, "
                "ISO year != year, week 53, year edge, last 606 days, ultimo, sunday, plain}"
                % (len(BIGSPECS) + len(NAMED), ",".join(s for s in SOURCES if s != "ymd"),
                   len(other), "boundary set + 20000 random" if tier == "quick" else "all days"))
    ctx.cov["days_in_domain"] = cal.NDAYS
    ctx.cov["sources"] = list(SOURCES)
    ctx.cov["targets"] = BIGSPECS + NAMED
    ctx.cov["sanitizer"] = "gcc ASan+UBSan(bounds,null,unreachable), abort_on_error"
    ctx.assumptions = ["CPython datetime.date (fromordinal, isocalendar) is the calendar",
                       "text conventions per info/format.texi corrected by the pinned suite (DESIGN 7)",
                       "epoch source is fed as @N command-line arguments"]
    ctx.min_evals = 1000000
    return ctx.finish()


if __name__ == "__main__":
    sys.exit(main("quick", 1))
