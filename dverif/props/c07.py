"""C07 - business-day arithmetic counts Monday-Friday days exactly"""
import sys
from datetime import date

from .. import core, addsweep
from ..core import Shard, run, align_lines, res_replay
from ..oracle import cal, dur

CALS = ["ymd", "ymcw", "yd", "ywd", "bizda", "ldn", "mdn", "jdn", "epoch"]
N_LIST = list(range(1, 13)) + list(range(19, 24)) + list(range(60, 67)) + list(range(250, 263)) + [1305]
WDN = ["Mon", "Tue", "Wed", "Thu", "Fri", "Sat", "Sun"]


def bd_pairs(K, ords, n, ctx):
    out = []
    for o in ords:
        if K == "bizda" and not dur.is_bday(o):
            continue
        t = dur.nth_bday_after(o, n)
        if K == "epoch" and max(o, t) > cal.ORD_MAX - 606:
            ctx.skip("epoch-last606")       # finding F1 of C01: these go through the civil date
            continue
        if not dur.in_range(t):
            ctx.skip("result-out-of-range")
            continue
        out.append((o, t))
    return out


def badd_task(task):
    """like addsweep.add_task but the class / signature carry start weekday and n mod 5"""
    bindir, K, n, prs = task
    sh = Shard()
    lines = [addsweep.ktext(K, o)[0] for o, _ in prs]
    # (-i %s would read a leading -N as the operand, so lead with a duration that cannot be a stamp)
    argv = [str(bindir / "dadd")] + addsweep.KARGS[K] + ["--"] + (["+0s"] if K == "epoch" and n < 0 else []) + ["%+db" % n]
    r = run(argv, stdin=("\n".join(lines) + "\n").encode(), cpu=60, wall=300)
    sh.procs += 1
    outs, crash = align_lines(lines, r)
    sh.check_san(r, "san", "badd:%s:san" % K)
    for k, got in enumerate(outs):
        o, t = prs[k]
        exps = addsweep.ktext(K, t)
        wd = (o - 1) % 7
        startc = "weekend" if wd >= 5 else "weekday"
        c = (K, WDN[wd], "n%%5=%d" % (abs(n) % 5), "+" if n > 0 else "-", "wrap" if abs(n) >= 5 else "nowrap")
        if got in exps:
            sh.ok("badd", c)
        else:
            sig = "badd:%s:start=%s:%s:err=%s" % (K, startc, "+" if n > 0 else "-",
                                                   addsweep.err_shape(got, exps, o, t, K))
            sh.bad("badd", sig, "dadd %s %+db -> %r, the %d-th Mon-Fri day %s it is %s (%s)" %
                   (lines[k], n, got, abs(n), "after" if n > 0 else "before", exps[0], cal.Day(t).ymd()),
                   dict(argv=argv, input=lines[k], expected=list(exps), observed=got), cls=c)
    if crash is not None and crash >= 0:
        sh.bad("badd", "badd:%s:died" % K, "dadd died/stalled at %r" % lines[crash], res_replay(r))
    if outs and outs[0]:
        sh.sample(dict(cmd=core.shq(argv), input=lines[0], output=outs[0]), cap=1)
    return sh


def bdiff_task(task):
    """ddiff A B -f %db must invert dadd A +nb; arbitrary pairs: Mon-Fri days in the half-open interval"""
    bindir, a, items = task      # items = [(b ordinal, n or None)]
    sh = Shard()
    A = cal.Day(a).ymd()
    lines = [cal.Day(b).ymd() for b, _ in items]
    argv = [str(bindir / "ddiff"), A, "-f", "%db"]
    r = run(argv, stdin=("\n".join(lines) + "\n").encode(), cpu=60, wall=300)
    sh.procs += 1
    outs, crash = align_lines(lines, r)
    sh.check_san(r, "san", "bdiff:san")
    wa = (a - 1) % 7
    for k, got in enumerate(outs):
        b, n = items[k]
        try:
            val = int(got[:-1]) if got and got.endswith("b") else None
        except ValueError:
            val = None
        startc = "weekend" if wa >= 5 else "weekday"
        if n is not None:
            c = ("ddiff-inv", WDN[wa], "+" if n > 0 else "-", "n%%5=%d" % (abs(n) % 5))
            if val == n:
                sh.ok("bdiff-inverse", c)
            else:
                sh.bad("bdiff-inverse", "bdiff:inverse:start=%s:%s:delta=%s" %
                       (startc, "+" if n > 0 else "-", "?" if val is None else max(-3, min(3, val - n))),
                       "dadd %s %+db = %s but ddiff %s %s -f %%db = %r" % (A, n, lines[k], A, lines[k], got),
                       dict(argv=argv, input=lines[k], expected="%db" % n, observed=got), cls=c)
        else:
            lo, hi = min(a, b), max(a, b)
            sgn = 1 if b >= a else -1
            acc = {sgn * dur.bdays_between(lo, hi), sgn * dur.bdays_between(lo - 1, hi - 1)}
            wb = (b - 1) % 7
            c = ("ddiff-count", WDN[wa], WDN[wb], "+" if sgn > 0 else "-")
            if val in acc:
                sh.ok("bdiff-count", c)
            else:
                endc = "weekend" if wb >= 5 else "weekday"
                sh.bad("bdiff-count", "bdiff:count:start=%s:end=%s:%s" % (startc, endc, "+" if sgn > 0 else "-"),
                       "ddiff %s %s -f %%db = %r, Mon-Fri days in the half-open interval: %s" %
                       (A, lines[k], got, sorted(acc)),
                       dict(argv=argv, input=lines[k], expected=sorted(acc), observed=got), cls=c)
    if outs and outs[0]:
        sh.sample(dict(cmd=core.shq(argv), input=lines[0], output=outs[0]), cap=1)
    return sh


_YB = {}


def bizmap_task(task):
    """YYYY-MM-DDb denotes the DD-th Mon-Fri day of the month"""
    bindir, yms = task
    sh = Shard()
    lines, exp = [], []
    for y, m in yms:
        nb = dur.bdays_in_month(y, m)
        for i in range(1, nb + 1):
            lines.append("%04d-%02d-%02db" % (y, m, i))
            exp.append(cal.Day(dur.nth_bday_in_month(y, m, i)).ymd())
    argv = [str(bindir / "dconv"), "-f", "%F"]
    r = run(argv, stdin=("\n".join(lines) + "\n").encode(), cpu=60, wall=300)
    sh.procs += 1
    outs, crash = align_lines(lines, r)
    sh.check_san(r, "san", "bizmap:san")
    for k, got in enumerate(outs):
        idx = int(lines[k][8:10])
        c = ("bizmap", "idx%d" % idx if idx > 19 or idx < 3 else "idx-mid")
        if got == exp[k]:
            sh.ok("bizmap", c)
        else:
            sh.bad("bizmap", "bizmap:%s:err=%s" % ("hi" if idx > 19 else "lo", addsweep.err_shape(got, ())),
                   "dconv %s -f %%F -> %r, the %d-th Mon-Fri day of that month is %s" % (lines[k], got, idx, exp[k]),
                   dict(argv=argv, input=lines[k], expected=exp[k], observed=got), cls=c)
    if outs:
        sh.sample(dict(cmd=core.shq(argv), input=lines[0], output=outs[0]), cap=1)
    # read through the explicit input format instead of the standard parser
    argv4 = [str(bindir / "dconv"), "-i", "%Y-%m-%db", "-f", "%F"]
    r4 = run(argv4, stdin=("\n".join(lines) + "\n").encode(), cpu=60, wall=300)
    sh.procs += 1
    sh.check_san(r4, "san", "bizmap:ifmt:san")
    outs4, _ = align_lines(lines, r4)
    for k, got in enumerate(outs4):
        idx = int(lines[k][8:10])
        c = ("bizmap-ifmt", "idx%d" % idx if idx > 19 or idx < 3 else "idx-mid")
        if got == exp[k]:
            sh.ok("bizmap", c)
        else:
            sh.bad("bizmap", "bizmap:ifmt:%s:err=%s" % ("hi" if idx > 19 else "lo", addsweep.err_shape(got, ())),
                   "dconv -i %%Y-%%m-%%db %s -f %%F -> %r, the %d-th Mon-Fri day of that month is %s" % (lines[k], got, idx, exp[k]),
                   dict(argv=argv4, input=lines[k], expected=exp[k], observed=got), cls=c)
    # and back: the civil date (in four spellings) printed as business day of the month gives the index again
    for rep in ("ymd", "ywd", "yd", "ymcw"):
        if (len(lines) + len(rep)) % 4 != ("ymd", "ywd", "yd", "ymcw").index(rep) and rep != "ymd":
            continue
        src = [addsweep.ktext(rep, date.fromisoformat(e).toordinal())[0] for e in exp]
        argv3 = [str(bindir / "dconv"), "-f", "%Y-%m-%db|%jb"]
        r3 = run(argv3, stdin=("\n".join(src) + "\n").encode(), cpu=60, wall=300)
        sh.procs += 1
        sh.check_san(r3, "san", "bizmap:back:san")
        outs3, _ = align_lines(src, r3)
        for k, got in enumerate(outs3):
            idx = int(lines[k][8:10])
            o_ = date.fromisoformat(exp[k]).toordinal()
            y_ = cal.Day(o_).y
            if y_ not in _YB:
                j1 = date(y_, 1, 1).toordinal()
                acc, n_ = [0] * 368, 0
                for i_ in range(0, 367):
                    if dur.is_bday(j1 + i_):
                        n_ += 1
                    acc[i_ + 1] = n_
                _YB[y_] = (j1, acc)
            want3 = "%s|%03db" % (lines[k], _YB[y_][1][o_ - _YB[y_][0] + 1])
            c = ("bizmap-back", rep, "idx%d" % idx if idx > 19 or idx < 3 else "idx-mid", WDN[(date.fromisoformat(exp[k]).toordinal() - 1) % 7])
            if got == want3:
                sh.ok("bizmap", c)
            else:
                sh.bad("bizmap", "bizmap:back:%s:err=%s" % (rep, "jb" if got and got.split("|")[0] == lines[k] else addsweep.err_shape(got, ())),
                       "dconv %s -f '%%Y-%%m-%%db|%%jb' -> %r, it is the %d-th Mon-Fri day of its month and the %s-th of its year: %s" %
                       (src[k], got, idx, want3[-4:-1], want3),
                       dict(argv=argv3, input=src[k], expected=want3, observed=got), cls=c)
    # the same dates through the other exits of the business-day representation: count-weekday form and its count,
    # business day of the year, day number
    ords = [date.fromisoformat(e).toordinal() for e in exp]
    ybase = {}
    for (fmt, tag, fexp) in (
            ("%Y-%m-%c-%w|%c", "ymcw", lambda o: "%s|%02d" % (cal.Day(o).ymcw(), cal.Day(o).cnt_mon)),
            ("%jb", "yday-b", None),
            ("ldn", "ldn", lambda o: "%d" % cal.Day(o).ldn)):
        argv2 = [str(bindir / "dconv"), "-f", fmt]
        r2 = run(argv2, stdin=("\n".join(lines) + "\n").encode(), cpu=60, wall=300)
        sh.procs += 1
        sh.check_san(r2, "san", "bizmap:%s:san" % tag)
        outs2, _ = align_lines(lines, r2)
        for k, got in enumerate(outs2):
            o = ords[k]
            if fexp is not None:
                want = fexp(o)
            else:
                y = cal.Day(o).y
                if y not in ybase:
                    j1 = date(y, 1, 1).toordinal()
                    ybase[y] = (j1, [0] * 367)
                    n = 0
                    for i in range(0, 366):
                        if dur.is_bday(j1 + i):
                            n += 1
                        ybase[y][1][i + 1] = n
                want = "%03db" % ybase[y][1][o - ybase[y][0] + 1]
            if o > cal.ORD_MAX - 606 and tag == "ldn":
                continue        # finding F1 of C01
            c = ("bizmap", tag)
            if got == want:
                sh.ok("bizmap", c)
            else:
                sh.bad("bizmap", "bizmap:%s:err=%s" % (tag, addsweep.err_shape(got, ())),
                       "dconv %s -f '%s' -> %r, %s is %s" % (lines[k], fmt, got, exp[k], want),
                       dict(argv=argv2, input=lines[k], expected=want, observed=got), cls=c)
    return sh


def _dispatch(t):
    return {"badd": badd_task, "bdiff": bdiff_task, "bizmap": bizmap_task}[t[0]](t[1])


def main(tier, seed):
    ctx = core.Ctx("C07", tier, seed)
    bindir = ctx.bin("san")
    rng = ctx.rng
    quick = tier == "quick"
    spans = [(1899, 1902), (1999, 2004), (2096, 2104), (4090, 4095), (1601, 1603)]
    days = []
    for y1, y2 in spans:
        days += list(range(date(y1, 1, 1).toordinal(), date(y2, 12, 31).toordinal() + 1))
    if not quick:
        days = list(range(cal.ORD_MIN, cal.ORD_MAX + 1, 3))
    tasks = []
    for K in CALS:
        S = days if not quick else rng.sample(days, 4000)
        for n in N_LIST:
            for s in (1, -1):
                tasks.append(("badd", (bindir, K, s * n, bd_pairs(K, S, s * n, ctx))))
        small = rng.sample(days, 1500)
        for _ in range(20 if quick else 300):
            n = rng.choice([1, -1]) * int(10 ** rng.uniform(0, 5.3))
            tasks.append(("badd", (bindir, K, n, bd_pairs(K, small, n, ctx))))
    for a in rng.sample(days, 500 if quick else 6000):
        items = []
        for n in N_LIST[:24] + [rng.randrange(1, 3000) for _ in range(6)]:
            for s in (1, -1):
                t = dur.nth_bday_after(a, s * n)
                if dur.in_range(t):
                    items.append((t, s * n))
        for _ in range(40):
            b = a + rng.choice([1, -1]) * rng.randrange(0, 60)
            if dur.in_range(b):
                items.append((b, None))
        tasks.append(("bdiff", (bindir, a, items)))
    yms = [(y, m) for y in range(1601, 4096) for m in range(1, 13)]
    if quick:
        yms = [ym for ym in yms if ym[0] % 3 == seed % 3 or ym[0] > 4080 or ym[0] < 1610]
    for ch in range(0, len(yms), 1500):
        tasks.append(("bizmap", (bindir, yms[ch:ch + 1500])))
    tasks = [t for t in tasks if t[0] != "badd" or t[1][3]]
    for sh in core.pmap(_dispatch, tasks):
        ctx.merge(sh)
    ctx.rule = ("events: (1) dadd D +Nb in calendars %s compared with the N-th Mon-Fri day strictly after/before D "
                "found by stepping over date.weekday(); N in +-%s + random up to 200000; every weekday as start "
                "incl. weekend starts; (2) ddiff A B -f %%db for B = A (+) n business days must print n (inversion), "
                "and for arbitrary pairs the Mon-Fri count of the half-open interval (either end open accepted); "
                "(3) every YYYY-MM-DDb (all months%s, all indices) through dconv -f %%F (standard parser and -i '%%Y-%%m-%%db'), -f '%%Y-%%m-%%c-%%w|%%c', -f %%jb and -f ldn, and the civil date (ymd, ywd, yd, ymcw spelling) back through -f '%%Y-%%m-%%db|%%jb'. distinct_nontrivial = "
                "distinct (monitor, calendar, start weekday, n mod 5, sign, week-wrap)" %
                (CALS, N_LIST, " of every third year" if quick else ""))
    ctx.assumptions = ["n = 0 is excluded by the statement",
                       "ddiff %db on pairs with exactly one business-day endpoint: both half-open conventions accepted",
                       "dconv -f bizda is a documented stub (0000-00-00b) and not judged"]
    ctx.min_evals = 100000
    return ctx.finish()


if __name__ == "__main__":
    sys.exit(main("quick", 1))
