"""C08 - comparison is the chronological total order; sorting respects it"""
import sys
from collections import Counter

from .. import core
from ..core import Shard, run, drive, req, res_replay
from ..oracle import cal, dur

KINDS = ["ymd", "ywd", "yd", "ymcw", "bizda", "ldn", "time", "ymd-dt", "ywd-dt", "ymcw-dt", "epoch"]


def hms(s):
    return "%02d:%02d:%02d" % (s // 3600, s // 60 % 60, s % 60)


def mk(kind, o, sod):
    """-> (text, ifmt or None)"""
    D = cal.Day(o)
    if kind == "ymd":
        return D.ymd(), None
    if kind == "ywd":
        return D.ywd(), None
    if kind == "yd":
        return D.yd(), None
    if kind == "ymcw":
        return D.ymcw(), None
    if kind == "bizda":
        return dur.bizda_text(o), None
    if kind == "ldn":
        return "%d" % D.ldn, "ldn"
    if kind == "time":
        return hms(sod), None
    if kind == "ymd-dt":
        return D.ymd() + "T" + hms(sod), None
    if kind == "ywd-dt":
        return D.ywd() + "T" + hms(sod), None
    if kind == "ymcw-dt":
        return D.ymcw() + "T" + hms(sod), None
    if kind == "epoch":
        return "@%d" % ((o - cal.ORD_UNIX) * 86400 + sod), None
    raise KeyError(kind)


def key(kind, o, sod):
    if kind == "time":
        return sod
    if kind in ("ymd", "ywd", "yd", "ymcw", "bizda", "ldn"):
        return o
    return o * 86400 + sod


def relation(kind, a, b):
    (oa, _), (ob, _) = a, b
    A, B = cal.Day(oa), cal.Day(ob)
    if kind == "time":
        return "time"
    if oa == ob:
        return "same-day"
    if (A.y, A.m) == (B.y, B.m):
        r = "same-month"
        if kind.startswith("ymcw") and A.cnt_mon != B.cnt_mon:
            r += "+count-differs"
        if A.iw != B.iw:
            r += "+across-week"
        return r
    if A.y == B.y:
        return "across-month"
    if A.iy == B.iy:
        return "across-year-same-isoyear"
    return "across-year"


def cmp_task(task):
    bindir, kind, vals, seed = task
    import random
    rng = random.Random(seed)
    sh = Shard()
    # pairs inside neighbourhood windows + random pairs
    pairs = []
    n = len(vals)
    for i in range(n):
        for j in rng.sample(range(max(0, i - 12), min(n, i + 13)), 8):
            pairs.append((vals[i], vals[j]))
    for _ in range(n * 2):
        pairs.append((rng.choice(vals), rng.choice(vals)))
    reqs = []
    for a, b in pairs:
        ta, ifmt = mk(kind, *a)
        tb, _ = mk(kind, *b)
        reqs.append(req("C", ifmt, ta, tb))
    ans, deaths = drive(bindir / "dutdrv", reqs, sh, cpu=20, wall=120)
    for ix, r in deaths:
        sh.bad("cmp", "cmp:%s:died:%s" % (kind, r.san_kind() or r.sig or r.rc), "dutdrv died on %r" %
               (reqs[ix] if ix >= 0 else "?"), res_replay(r))
    res = {}
    for (a, b), rq, an in zip(pairs, reqs, ans):
        if an is None:
            continue
        ka, kb = key(kind, *a), key(kind, *b)
        want = (ka > kb) - (ka < kb)
        rel = relation(kind, a, b)
        c = (kind, rel, "eq" if want == 0 else "lt" if want < 0 else "gt")
        ta = mk(kind, *a)[0]
        tb = mk(kind, *b)[0]
        if not an.startswith("OK "):
            sh.bad("cmp", "cmp:%s:unparsed" % kind, "dutdrv C %s %s -> %s" % (ta, tb, an), dict(request=rq), cls=c)
            continue
        got = int(an.split()[1])
        inr = int(an.split()[2])
        res[(a, b)] = got
        if got == want:
            sh.ok("cmp", c)
        else:
            sh.bad("cmp", "cmp:%s:%s:want=%d:got=%d" % (kind, rel, want, got),
                   "dt_dtcmp(%s, %s) = %d, timeline says %d" % (ta, tb, got, want),
                   dict(argv=["dtest", ta, "--cmp", tb], request=rq, expected=want, observed=got), cls=c)
        # range predicate a in [a, b] is true iff a <= b
        if (inr != 0) != (want <= 0) and got == want:
            sh.bad("cmp", "cmp:%s:inrange:%s" % (kind, rel), "dt_dt_in_range_p(%s; %s, %s) = %d" % (ta, ta, tb, inr),
                   dict(request=rq), cls=c)
    # antisymmetry on the pairs asked both ways
    for (a, b), g in res.items():
        g2 = res.get((b, a))
        if g2 is not None and a != b:
            if g2 == -g or (g == -2 and g2 == -2):
                sh.ok("antisym", (kind, "antisym"))
            else:
                sh.bad("antisym", "cmp:%s:antisym" % kind, "cmp(%s,%s)=%d but cmp(%s,%s)=%d" %
                       (mk(kind, *a)[0], mk(kind, *b)[0], g, mk(kind, *b)[0], mk(kind, *a)[0], g2), {}, cls=(kind, "antisym"))
    sh.sample(dict(kind=kind, request=reqs[0], answer=ans[0]), cap=1)
    return sh


OPS = {"--lt": lambda c: c < 0, "--le": lambda c: c <= 0, "--eq": lambda c: c == 0, "--ne": lambda c: c != 0,
       "--ge": lambda c: c >= 0, "--gt": lambda c: c > 0, "--ot": lambda c: c < 0, "--nt": lambda c: c > 0}


def dtest_task(task):
    bindir, kind, pairs = task
    sh = Shard()
    opl = list(OPS.items())
    for n_, (a, b) in enumerate(pairs):
        ta, ifmt = mk(kind, *a)
        tb, _ = mk(kind, *b)
        ka, kb = key(kind, *a), key(kind, *b)
        want = (ka > kb) - (ka < kb)
        # the same operators as options of dgrep: the line A is selected iff A op B (three of the eight per pair, in rotation)
        for op, f in [opl[(n_ * 3 + i) % len(opl)] for i in range(3)] if kind not in ("mil", "epoch", "ldn") else []:      # (@N and -i ldn are not read from lines / by the expression)
            argv = [str(bindir / "dgrep")] + (["-i", ifmt] if ifmt else []) + [op, tb]
            r = run(argv, stdin=(ta + "\n").encode(), cpu=5, wall=60)
            sh.procs += 1
            if sh.check_san(r, "san", "dgrep-op:%s:san" % kind):
                continue
            sel = r.out.strip() != b""
            c = ("dgrep-op", kind, op, "eq" if want == 0 else "ne")
            if r.rc in (0, 1) and sel == bool(f(want)) and (not sel or r.out.decode("latin-1").rstrip("\n") == ta):
                sh.ok("dtest", c)
            else:
                sh.bad("dtest", "dgrep-op:%s:%s:%s" % (kind, op, "eq" if want == 0 else "ne"),
                       "echo %s | %s -> %r (rc %s), the line is %s B so it %s be selected" %
                       (ta, core.shq(argv), r.out[:80], r.rc, {0: "equal to", 1: "later than", -1: "earlier than"}[want],
                        "must" if f(want) else "must not"),
                       dict(argv=argv, stdin=ta, expected_selected=bool(f(want)), observed=r.out.decode("latin-1")), cls=c)
        # ... and one of them negated, as an expression: A is selected iff not (A op B)
        for op, f in ([opl[(n_ * 5 + 1) % len(opl)]] if want else opl[:6]) if kind not in ("mil", "epoch", "ldn") else []:
            sym = {"--lt": "<", "--le": "<=", "--gt": ">", "--ge": ">=", "--eq": "=", "--ne": "!=", "--ot": "<", "--nt": ">"}[op]
            argv = [str(bindir / "dgrep")] + (["-i", ifmt] if ifmt else []) + ["--", "!(%s%s)" % (sym, tb)]
            r = run(argv, stdin=(ta + "\n").encode(), cpu=5, wall=60)
            sh.procs += 1
            if not sh.check_san(r, "san", "dgrep-op:%s:san" % kind):
                sel = r.out.strip() != b""
                c = ("dgrep-not", kind, sym, "eq" if want == 0 else "ne")
                if r.rc in (0, 1) and sel == (not f(want)):
                    sh.ok("dtest", c)
                else:
                    sh.bad("dtest", "dgrep-not:%s:%s:%s" % (kind, sym, "eq" if want == 0 else "ne"),
                           "echo %s | %s -> %r (rc %s), the line is %s B so it %s be selected" %
                           (ta, core.shq(argv), r.out[:80], r.rc, {0: "equal to", 1: "later than", -1: "earlier than"}[want],
                            "must not" if f(want) else "must"),
                           dict(argv=argv, stdin=ta, expected_selected=not f(want), observed=r.out.decode("latin-1")), cls=c)
        for op, f in list(OPS.items()) + [("--cmp", None)]:
            argv = [str(bindir / "dtest")] + (["-i", ifmt] if ifmt else []) + [ta, op, tb]
            r = run(argv, cpu=5, wall=60)
            sh.procs += 1
            if sh.check_san(r, "san", "dtest:%s:san" % kind):
                continue
            if op == "--cmp":
                exp = {0: 0, 1: 1, -1: 2}[want]
            else:
                exp = 0 if f(want) else 1
            c = ("dtest", kind, op, "eq" if want == 0 else "ne")
            if r.rc == exp:
                sh.ok("dtest", c)
            else:
                sh.bad("dtest", "dtest:%s:%s:%s" % (kind, op, "eq" if want == 0 else "ne"),
                       "%s exits %s, expected %d" % (core.shq(argv), r.rc, exp),
                       dict(argv=argv, expected_rc=exp, observed_rc=r.rc), cls=c)
    return sh


def mil_task(task):
    bindir, ords = task
    sh = Shard()
    for o in ords:
        a = cal.Day(o).ymd() + "T24:00:00"
        b = cal.Day(o + 1).ymd() + "T00:00:00"
        for op, exp in (("--eq", 0), ("--ne", 1), ("--le", 0), ("--gt", 1)):
            argv = [str(bindir / "dtest"), a, op, b]
            r = run(argv, cpu=5, wall=60)
            sh.procs += 1
            c = ("mil24", op)
            if r.rc == exp:
                sh.ok("mil24", c)
            else:
                sh.bad("mil24", "mil24:dtest:%s" % op, "%s exits %s; 24:00:00 is 00:00:00 of the next day, expected %d" %
                       (core.shq(argv), r.rc, exp), dict(argv=argv, expected_rc=exp, observed_rc=r.rc), cls=c)
    return sh


def dsort_task(task):
    bindir, seed, nlines, reverse = task
    import random
    rng = random.Random(seed)
    sh = Shard()
    kind = rng.choice(["ymd", "ymd", "ymd-dt", "ymd-dt", "ywd", "time"])
    center = rng.randrange(cal.ORD_MIN + 400, cal.ORD_MAX - 1000)
    lines, keys = [], []
    words = ["alpha", "beta", "x", "  lead", "trail  ", "dup", "Zulu", "äöü", "tab\there", "", "#", "0"]
    for i in range(nlines):
        o = center + (rng.randrange(-40, 40) if rng.random() < .7 else rng.randrange(-300000, 300000))
        o = min(max(o, cal.ORD_MIN), cal.ORD_MAX - 700)
        sod = rng.choice([0, 1, 43200, 86399, rng.randrange(86400)])
        t = mk(kind, o, sod)[0]
        pre, post = rng.choice(words), rng.choice(words)
        form = rng.randrange(4)
        ln = t if form == 0 else pre + " " + t if form == 1 else t + " " + post if form == 2 else pre + " " + t + " " + post
        if rng.random() < .15 and lines:
            j = rng.randrange(len(lines))
            ln, k = lines[j], keys[j]
            lines.append(ln)
            keys.append(k)
            continue
        lines.append(ln)
        keys.append(key(kind, o, sod))
    argv = [str(bindir / "dsort")] + (["-r"] if reverse else [])
    data = ("\n".join(lines) + "\n").encode("utf-8")
    nfiles = rng.choice([0, 0, 1, 2, 3, 5]) if nlines >= 2 else 0
    tmpd = None
    if nfiles:
        # the same lines spread over FILE arguments (a file may be empty)
        import tempfile
        tmpd = tempfile.mkdtemp(prefix="c08-", dir=str(core.VERIF / ".build"))
        cuts = sorted(rng.randrange(len(lines) + 1) for _ in range(nfiles - 1))
        parts = [lines[a:b] for a, b in zip([0] + cuts, cuts + [len(lines)])]
        for i, part in enumerate(parts):
            fn = "%s/f%d" % (tmpd, i)
            with open(fn, "wb") as fp:
                fp.write(("\n".join(part) + ("\n" if part else "")).encode("utf-8"))
            argv.append(fn)
        r = run(argv, stdin=b"", cpu=30, wall=120)
        import shutil
        shutil.rmtree(tmpd, ignore_errors=True)
    else:
        r = run(argv, stdin=data, cpu=30, wall=120)
    sh.procs += 1
    c = ("dsort", kind, "r" if reverse else "fwd", "n<10" if nlines < 10 else "n<100" if nlines < 100 else "n>=100",
         "stdin" if not nfiles else "files%d" % min(nfiles, 3))
    if sh.check_san(r, "san", "dsort:san"):
        return sh
    out = r.out.decode("utf-8", "replace").split("\n")
    if out and out[-1] == "":
        out.pop()
    if Counter(out) != Counter(lines):
        miss = list((Counter(lines) - Counter(out)).items())[:2]
        extra = list((Counter(out) - Counter(lines)).items())[:2]
        sh.bad("dsort-perm", "dsort:not-a-permutation:%s" % kind,
               "dsort output is not a permutation of its %d input lines: missing %r extra %r" % (len(lines), miss, extra),
               dict(argv=argv, stdin_hex=data.hex()), cls=c)
        return sh
    sh.ok("dsort-perm", c)
    # order: map output lines back to keys (identical lines have identical keys)
    k_of = {}
    for ln, k in zip(lines, keys):
        k_of.setdefault(ln, k)
    seq = [k_of[l] for l in out]
    bad = next((i for i in range(1, len(seq)) if (seq[i - 1] > seq[i]) != reverse and seq[i - 1] != seq[i]), None)
    if bad is None:
        sh.ok("dsort-order", c, n=max(1, len(seq) - 1))
    else:
        sh.bad("dsort-order", "dsort:order:%s:%s" % (kind, "r" if reverse else "fwd"),
               "dsort%s: line %d %r comes before %r" % (" -r" if reverse else "", bad, out[bad - 1], out[bad]),
               dict(argv=argv, stdin_hex=data.hex()), cls=c)
    return sh


def _dispatch(t):
    return {"cmp": cmp_task, "dtest": dtest_task, "mil": mil_task, "dsort": dsort_task}[t[0]](t[1])


def main(tier, seed):
    ctx = core.Ctx("C08", tier, seed)
    bindir = ctx.bin("san")
    rng = ctx.rng
    quick = tier == "quick"
    bnd = cal.boundary_ordinals()
    bnd = [o for o in bnd if o < cal.ORD_MAX - 700]
    tasks = []
    for kind in KINDS:
        for rep in range(2 if quick else 12):
            # a sorted run of boundary-biased values: dense cluster + spread
            c0 = rng.choice(bnd)
            pts = set()
            while len(pts) < (400 if quick else 1500):
                if rng.random() < .6:
                    o = c0 + rng.randrange(-45, 46)
                else:
                    o = rng.choice(bnd)
                if not (cal.ORD_MIN <= o <= cal.ORD_MAX - 700):
                    continue
                if kind == "bizda" and not dur.is_bday(o):
                    continue
                pts.add((o, rng.choice([0, 1, 59, 3600, 43199, 43200, 86399, rng.randrange(86400)])))
            vals = sorted(pts, key=lambda v: key(kind, *v))
            tasks.append(("cmp", (bindir, kind, vals, seed * 977 + rep)))
        vals = sorted(pts)
        prs = [(rng.choice(vals), rng.choice(vals)) for _ in range(4 if quick else 30)] + [(vals[0], vals[0])]
        tasks.append(("dtest", (bindir, kind, prs)))
    tasks.append(("mil", (bindir, rng.sample(bnd, 12 if quick else 200))))
    for i in range(120 if quick else 1500):
        n = rng.choice([1, 2, 3, 7, 30, 100, 400]) if quick or i % 50 else 20000
        tasks.append(("dsort", (bindir, seed * 7907 + i, n, i % 2 == 1)))
    for sh in core.pmap(_dispatch, tasks):
        ctx.merge(sh)
    ctx.rule = ("events: dt_dtcmp / dt_dt_in_range_p through the exact code path of dtest (dt_io_strpdt x2) on pairs of "
                "values of one kind (%s): 8 partners inside a +-12 neighbourhood of the sorted value list plus random "
                "pairs, judged against ordinal(+seconds) comparison; antisymmetry on pairs asked both ways; dtest exit "
                "status for all 9 operator flags on a sample; 24:00:00 = next midnight; dsort [-r] on generated files "
                "(1..400 lines, duplicates, leading/trailing text, UTF-8): output must be a permutation of the input "
                "multiset and keys must be monotone. distinct_nontrivial = distinct (kind, boundary relation, outcome)"
                % ", ".join(KINDS))
    ctx.assumptions = ["mixed kinds in one comparison are out of scope", "dsort runs with LC_ALL=C (environment is C20's)"]
    ctx.min_evals = 20000
    return ctx.finish()


if __name__ == "__main__":
    sys.exit(main("quick", 1))
