"""C06 - duration output conserves the total (refinement rule)"""
import itertools
import sys

from .. import core, diffrows as dr
from ..core import Shard
from ..oracle import cal, dur

UNITS = "YmwdHMS"


def subsets():
    out = []
    for k in range(1, 8):
        for c in itertools.combinations(UNITS, k):
            out.append("".join(c))
    return out


def impossible(us):
    """documented as impossible: months/years refined by clock units without %d"""
    return ("Y" in us or "m" in us) and any(u in us for u in "HMS") and "d" not in us


def fmt_of(units, rng, variant):
    sep = {0: " ", 1: ":", 2: "|", 3: " x "}[variant % 4]
    pad = {0: "", 1: "0", 2: " "}[(variant // 4) % 3]
    return sep.join("%" + pad + u for u in units)


def natural_limit(u, us):
    """exclusive upper bound of refined unit u given the set of present units, or None"""
    idx = UNITS.index(u)
    coarser = [c for c in UNITS[:idx] if c in us]
    if not coarser:
        return None
    c = coarser[-1]
    table = {
        ("m", "Y"): 12,
        ("w", "Y"): 54, ("w", "m"): 5,
        ("d", "Y"): 366, ("d", "m"): 31, ("d", "w"): 7,
        ("H", "w"): 168, ("H", "d"): 24,
        ("M", "w"): 10080, ("M", "d"): 1440, ("M", "H"): 60,
        ("S", "w"): 604800, ("S", "d"): 86400, ("S", "H"): 3600, ("S", "M"): 60,
    }
    return table.get((u, c))


def judge(us_fmt_order, ea, eb, got, with_time):
    """-> None if fine, else (errclass, message)"""
    us = set(us_fmt_order)
    p = dr.parse_components(list(us_fmt_order), got) if got is not None else None
    if p is None:
        return "unparsable", "output %r does not carry %d numbers" % (got, len(us_fmt_order))
    sign, v, nminus = p
    if nminus > 1:
        return "multiple-minus", "more than one minus sign in %r" % got
    diff = eb - ea
    if diff < 0 and sign > 0 and any(v.values()):
        return "sign", "later operand first but no leading minus in %r" % got
    if diff > 0 and sign < 0:
        return "sign", "minus sign although the second operand is later: %r" % got
    if diff == 0 and any(v.values()):
        return "nonzero-for-equal", "equal operands but %r" % got
    E, L = (ea, eb) if diff >= 0 else (eb, ea)
    for u in us:
        lim = natural_limit(u, us)
        if lim is not None and v[u] >= lim:
            return "range:%s" % u, "%s=%d is outside its natural range (<%d) in %r" % (u, v[u], lim, got)
    fixed = [u for u in "wdHMS" if u in us]
    fin = [u for u in UNITS if u in us][-1]
    total_fixed = sum(v[u] * dr.SECS[u] for u in fixed)
    oE, sE = dr.split(E)
    if "Y" in us or "m" in us:
        months = 12 * v.get("Y", 0) + v.get("m", 0)
        iso = "Y" in us and "w" in us and "m" not in us
        if iso:
            o1 = dur.add_years_ywd(oE, v["Y"])
            o2 = dur.add_years_ywd(oE, v["Y"] + 1)
        else:
            o1 = dur.add_months_ymd(oE, months)
            o2 = dur.add_months_ymd(oE, months + (1 if "m" in us else 12))
        if o1 is None:
            return "calendar-part", "year/month part %r leads out of range" % got
        e1 = dr.ep(o1, sE)
        if e1 > L:
            return "calendar-part-too-big", "year/month part of %r overshoots the later operand" % got
        if o2 is not None and dr.ep(o2, sE) <= L:
            return "calendar-part-too-small", "one more %s fits between the operands, %r is not the truncation" % (
                "year" if ("m" not in us) else "month", got)
        rem = L - e1
        if fixed:
            fs = dr.SECS[fin]
            if total_fixed != rem // fs * fs:
                return "conservation", "fixed units of %r sum to %d s, remainder after the calendar part is %d s" % (
                    got, total_fixed, rem)
        return None
    fs = dr.SECS[fin]
    want = (L - E) // fs * fs
    if total_fixed != want:
        return "conservation", "components of %r sum to %d s, exact difference %d s truncated to %s is %d s" % (
            got, total_fixed, L - E, fin, want)
    return None


def group_task(task):
    bindir, units, fmt, group, with_time, dom_ok = task[:6]
    mix = task[6] if len(task) > 6 else "ymd"      # notation of the second operand (the first is ymd)
    sh = Shard()
    texts = [dr.text(e, with_time) for e in group]
    if mix in ("epoch", "epoch-both") and not with_time:
        mix = "ymd"
    ptexts = texts if mix == "ymd" else [dr.text(e, with_time, "epoch" if mix == "epoch-both" else mix) for e in group]
    if mix == "epoch-both":
        texts = ptexts
    for i, ea in enumerate(group):
        key, outs, s2 = dr.row_task((bindir, i, fmt, texts[i], ptexts))
        sh.merge(s2)
        for j, eb in enumerate(group):
            got = outs[j]
            E = min(ea, eb)
            oE, _ = dr.split(E)
            D = cal.Day(oE)
            if ("Y" in units or "m" in units):
                if D.d > 28:
                    sh.skip("earlier-dom>28")
                    continue
            bcls = []
            mag = abs(eb - ea)
            for nm, s in (("min", 60), ("hour", 3600), ("day", 86400), ("week", 604800)):
                if mag and (mag % s == 0 or mag % s == s - 1 or mag % s == 1):
                    bcls.append(nm)
            c = (units, "eq" if ea == eb else "+" if eb > ea else "-", "+".join(bcls) or "plain", "dt" if with_time else "d")
            verdict = judge(units, ea, eb, got, with_time)
            if verdict is None:
                sh.ok("refine", c if mix == "ymd" else c + ("2nd=" + mix,))
            else:
                febult = ":febult" if (D.m == 2 and D.d == cal.mdays(D.y, 2)) else ""
                if not febult and D.iwd == 7 and D.iw == dur.iso_weeks_in_year(D.iy):
                    febult = ":isoyrend"
                sig = "refine:%s:%s:%s:%s%s" % ("".join(u for u in UNITS if u in units), verdict[0],
                                                  "neg" if eb < ea else "pos", "dt" if with_time else "d", febult)
                sh.bad("refine", sig + ("" if mix == "ymd" else ":2nd=" + mix), "ddiff %s %s -f %r: %s" % (texts[i], ptexts[j], fmt, verdict[1]),
                       dict(argv=["ddiff", texts[i], ptexts[j], "-f", fmt], observed=got), cls=c + (mix,))
    sh.sample(dict(cmd="ddiff %s %s -f '%s'" % (texts[0], texts[-1], fmt)), cap=1)
    return sh


def main(tier, seed):
    ctx = core.Ctx("C06", tier, seed)
    bindir = ctx.bin("san")
    rng = ctx.rng
    quick = tier == "quick"
    subs = [s for s in subsets() if not impossible(s)]
    tasks = []
    ngroups = 4 if quick else 16
    gsize = 24 if quick else 40
    variant = 0
    for us in subs:
        date_only_ok = not any(u in us for u in "HMS")
        for g in range(ngroups):
            variant += 1
            with_time = not (date_only_ok and g % 2 == 1)
            grp = dr.make_group(rng, with_time, size=gsize)
            # every fourth group with the second operand in another notation than the first
            tasks.append((bindir, us, fmt_of(us, rng, variant), grp, with_time, True, ["ymd", "ymd", "ymd", ["ywd", "ymcw", "yd", "epoch", "epoch-both"][variant % 5]][variant % 4]))
        # one permuted order per subset
        if len(us) > 1:
            perm = list(us)
            rng.shuffle(perm)
            tasks.append((bindir, "".join(perm), fmt_of(perm, rng, variant), dr.make_group(rng, True, size=gsize), True, True))
    for sh in core.pmap(group_task, tasks):
        ctx.merge(sh)
    ctx.rule = ("events = (format unit subset, ordered pair of instants) with the printed ddiff components judged: "
                "single leading minus, sign = order, each refined unit inside its natural range, components "
                "recombine to the exact epoch difference truncated toward zero to the finest unit (year/month part: "
                "largest number of months/ISO years that fits, the rest conserved); %d of the 127 subsets of "
                "%%Y %%m %%w %%d %%H %%M %%S (those the documentation calls impossible are left out), canonical "
                "and one shuffled order each, separators ' ' ':' '|' ' x ', padding none/0/space; %d groups of %d "
                "instants per subset, all ordered pairs. distinct_nontrivial = distinct (subset+order, sign, unit "
                "boundaries straddled, date|date-time)" % (len(subs), ngroups, gsize))
    ctx.assumptions = ["earlier operand has day-of-month <= 28 for subsets with %Y/%m (statement of C05/C06)",
                       "year+week subsets without months are ISO-week-calendar durations (DESIGN C05 L); an earlier operand in week 53 counts as the last week of years without one, as in dadd",
                       "%rS belongs to C14"]
    ctx.min_evals = 50000
    return ctx.finish()


if __name__ == "__main__":
    sys.exit(main("quick", 1))
