#!/bin/bash
# ./runall.sh [props...] : run the quick checks one after another, print the summary lines
cd /verif
props="$@"
[ -z "$props" ] && props=$(python3 -c "import json; print(' '.join(c['property_id'] for c in json.load(open('MANIFEST.json'))['checks']))")
for p in $props; do
  ./check $p 2>&1 | grep -E "^(VIOLATION|HARNESS|$p:)" | cut -c1-200 | tail -4
done
