# convenience targets; the registered commands are in MANIFEST.json
setup:
	python3 -m dverif.build san
	python3 -m dverif.selftest
selftest:
	python3 -m dverif.selftest
manifest:
	python3 manifest_gen.py && ./validate.py
clean:
	rm -rf .build evidence/replay
.PHONY: setup selftest manifest clean
