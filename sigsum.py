#!/usr/bin/env python3
"""summarise replay signatures of a property: ./sigsum.py C03 [strip-regex]"""
import json,glob,collections,sys,re
prop=sys.argv[1]
strip=sys.argv[2] if len(sys.argv)>2 else None
g=collections.defaultdict(list)
for f in glob.glob('/verif/evidence/replay/%s/*.json'%prop):
    r=json.load(open(f))
    s=r['signature']
    key=re.sub(strip,'',s) if strip else s
    g[key].append((r['count'], r['description'][:220]))
for k in sorted(g):
    print(k, 'sigs=%d events=%d'%(len(g[k]), sum(c for c,_ in g[k])))
    print('      ', g[k][0][1])
