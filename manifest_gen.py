#!/usr/bin/env python3
"""regenerate MANIFEST.json from the table below (one place to keep it consistent)"""
import json
import os
import subprocess

HERE = os.path.dirname(os.path.abspath(__file__))

SAN = ("gcc 12 -O1 ASan + UBSan(bounds,null,unreachable) build of /repo's working tree made by dverif/build.py "
       "(own compile rules, generated sources regenerated); ")
TB = ("Trusted base: gcc/libasan, CPython 3.11 datetime, the repo's data files as specifications, the oracles in "
      "dverif/oracle (self-tested by `make selftest`), the marshalling code of the drivers.")

P = {
 "C01": dict(cat="exploration", tech="reference-model monitor over an exhaustive day sweep + ASan/UBSan",
   text="Every one of the 911,280 days is produced by the oracle in the ymd spelling and pushed through the real dconv for "
        "26 specifiers and 7 calendar names (exhaustive on the day dimension); the other source representations (ywd, yd, "
        "ymcw, ldn, mdn, jdn (midnight, noon, afternoon), @epoch, year + %U/%W week + weekday) on a boundary+random set (thorough: all days). Each printed field is compared with "
        "datetime.date. Held-on-observed, not a proof: what is not enumerated is the cross product source x all days in quick.",
   note=SAN + "text conventions from info/format.texi corrected by the pinned suite. " + TB, ref="3 C01"),
 "C02": dict(cat="exploration", tech="round-trip and representation-independence monitor (differential against the calendar oracle) + ASan/UBSan",
   text="Chains ymd>A>B>ymd through the tool's own output for all 42 ordered calendar pairs; every date specifier alone, in "
        "random orders and after every other specifier, printed from 21 holders (parsed ymd/ywd/yd/ymcw/business-day dates/day numbers, results "
        "of dadd and dround) plus dseq's day counts over all days; every day of the Umm-al-Qura table, both directions. Judged against the "
        "calendar oracle, so two representations that agree but are both wrong are still caught.",
   note=SAN + "Hijri -> Gregorian goes through command-line arguments (-i hijri does not read stdin). " + TB, ref="3 C02"),
 "C03": dict(cat="exploration", tech="reference-model monitor (ordinal arithmetic) over dadd sweeps + ASan/UBSan",
   text="dadd +-N days/weeks in 9 representations (ymd, ywd, yd, ymcw, bizda, ldn, mdn, jdn, epoch) on ~20k boundary+random start days x fixed N list (carry sizes from 1 day to 400 "
        "years) x random N, results printed natively and in another calendar, plus the laws (d+n)-n=d and (d+a)+b=d+(a+b).",
   note=SAN + TB, ref="3 C03"),
 "C04": dict(cat="exploration", tech="reference-model monitor (month/year algebra with clamping) over dadd/dseq + ASan/UBSan",
   text="dadd +-N months/quarters/years in ymd, ymcw, bizda (months) and ywd, yd (years) from all end-of-month/week-53/"
        "day-366/count-5 starts, single and composed steps, printed natively and in another calendar; dseq with month steps; "
        "month/year steps on date-times in a zone's wall clock (dadd --from-zone Z --zone Z, stdin and argument).",
   note=SAN + "lazy-ultimo semantics (steps of ONE invocation compose) as pinned by the suite. " + TB, ref="3 C04"),
 "C05": dict(cat="exploration", tech="inverse-function monitor: real ddiff output fed back through the real add code (driver + dadd tool)",
   text="For all ordered pairs of clustered instants and 23 unit-set/carrier combinations (ymd, ywd, ymcw, yd, epoch): sign = order, ddiff(B,A) = -ddiff(A,B), and the "
        "printed components added to the earlier value by the real library land on the later one. The oracle only supplies "
        "ordering/equality.",
   note=SAN + "earlier day-of-month <= 28 for %Y/%m formats as the statement says. " + TB, ref="3 C05"),
 "C06": dict(cat="exploration", tech="conservation monitor over recorded ddiff outputs (epoch arithmetic oracle)",
   text="All printable subsets of %Y %m %w %d %H %M %S (canonical + shuffled order, 4 separators, 3 paddings) on all ordered "
        "pairs of clustered instants: single minus, natural ranges, recombination to the exact difference truncated to the "
        "finest unit, maximality of the month/year part.",
   note=SAN + "subsets the documentation calls impossible are excluded. " + TB, ref="3 C06"),
 "C07": dict(cat="exploration", tech="reference-model monitor (step-over-weekdays oracle) + inversion law + ASan/UBSan",
   text="dadd +-Nb in 9 representations (ymd, ymcw, yd, ywd, bizda, ldn, mdn, jdn, epoch) from every weekday incl. weekend "
        "starts, ddiff %db inversion and interval counts, and the complete YYYY-MM-DDb -> date map, also through ymcw/%jb/ldn "
        "output and back from the civil date (four spellings) through %db.",
   note=SAN + TB, ref="3 C07"),
 "C11": dict(cat="exploration", tech="reference-model monitor (epoch-second arithmetic) + ASan/UBSan",
   text="dadd +-N s/m/h in ymd/ywd/ymcw/epoch representations across day, month, year boundaries up to 2^31-1 s; ddiff %S; "
        "%s/@N/-i %s both directions incl. negative epochs; 24:00:00 == next midnight.",
   note=SAN + TB, ref="3 C11"),
 "C12": dict(cat="exploration", tech="reference-model monitor (own RFC 8536 reader of the same file) over zifdrv/CLI answers + invariant probes H1/H2 + ASan/UBSan",
   text="Every merged transition of 270 real zone images (all 894 in thorough) and 120 synthetic TZif files (v1/2/3, 0..600 "
        "transitions, odd offsets) is queried at -1/0/+1 s, midpoints, both table ends, on a fresh handle and in ascending/"
        "descending sweeps: UTC->local offset, local->UTC (unique/ambiguous/gap), adjacent-range lookup; dconv --zone/"
        "--from-zone and dzone --next/--prev on a sample. Exhaustive over the transitions of the files visited.",
   note=SAN + "instants before the first transition are outside the property; no POSIX footer. " + TB, ref="3 C12"),
 "C13": dict(cat="exploration", tech="differential history monitor (N-value run vs N single-value runs; handle-with-history vs fresh handle) + probes + ASan/UBSan",
   text="41 tool/option sets x 12 histories (permutations, junk prefixes, >255/>512 lines, duplicates, reversal, arguments) "
        "compared byte-for-byte with single-value runs; zone handles under 6 history shapes against fresh-handle answers and "
        "the zone-file oracle; several zones in one run against one zone per run; dadd REF with durations as stdin lines; "
        "mixed CRLF/LF line ends; the tool histories repeated on the 'pat' build (autos pre-filled with a pattern).",
   note=SAN + "single-value runs of the same build are the reference; the oracle backs the zone part so 'both wrong the same way' is excluded. " + TB, ref="3 C13"),
 "C19": dict(cat="fault_enumeration", tech="fault enumeration over file images under ASan (exact-size images via mmap shim) + probes H1/H3 + valgrind memcheck on the decode-deciding faults + fidelity oracle for maps",
   text="Every truncation length and a fixed fault set per header count field, type index byte, version byte and magic of 14 "
        "seed TZif files (about 5000 images in quick), non-TZif files; generated zone-map sources compiled by the real "
        "`tzmap cc`: every present key must resolve, ~500 absent keys must not, `tzmap show` and dconv --zone MAP:KEY; "
        "compiled maps: every truncation, offset-field faults, byte corruptions, also through tzmap show/check.",
   note=SAN + "the .tzmap payloads are not shipped; sources are generated. " + TB, ref="3 C19"),
 "C08": dict(cat="exploration", tech="reference-model monitor (ordinal/seconds order) over dutdrv comparisons, dtest exit codes and dsort outputs (permutation + monotonicity)",
   text="dt_dtcmp/dt_dt_in_range_p through dtest's code path for 11 kinds (ymd, ywd, yd, ymcw, bizda, ldn, time, three "
        "date-time spellings, epoch) on neighbourhood and random pairs, antisymmetry, dtest for all 9 operators, dgrep with the "
        "operator as an option, dsort "
        "[-r] on 120 generated files: permutation of the input multiset and monotone keys.",
   note=SAN + "mixed kinds are out of scope; sort(1) runs under LC_ALL=C. " + TB, ref="3 C08"),
 "C14": dict(cat="exploration", tech="reference-model monitor (lib/leap-seconds.list) over dconv --zone/--from-zone TAI|GPS, ddiff %rS, dadd +Nrs",
   text="Offsets at every table entry -2..+2 s, midpoints, year starts to 4093, 2^31 and 2^32 +-1; %rS on ordered pairs of "
        "boundary instants (also > 2^31 s apart, inserted seconds as operands, %rS twice in a format) incl. antisymmetry; +-Nrs from "
        "-5..+5 s around every inserted second and around 1972-01-01, N also the distance between any two insertions; both with "
        "the date-times written as ymd, ymcw, ywd, yd and epoch seconds; +Nrs on operands in a zone's wall clock; the inverse "
        "mapping --from-zone TAI|GPS.",
   note=SAN + "TAI-UTC before 1972 is the table's first value. " + TB, ref="3 C14"),
}

P.update({
 "C09": dict(cat="exploration", tech="round-trip monitor (print -> parse -> print through the real formatter/parser via dutdrv) + locale-file oracle + ASan/UBSan",
   text="Seeded grammar of formats (192 shapes x 100 instances) over 40 values each: whatever dt_strfdt prints under a format "
        "that determines the value must be read back by dt_strpdt under the same format to the same value and print again "
        "to the same bytes; the per-calendar default formats; month/weekday names of all 274 shipped locales printed with "
        "--locale and read with --from-locale. The calendar oracle decides whether a format determines the value.",
   note=SAN + "formats with non-parseable specifiers (%q %Q) or ambiguous adjacency are outside the statement. " + TB, ref="3 C09"),
 "C10": dict(cat="exploration", tech="sanitizer monitor (ASan + UBSan + invariant probes) over seeded hostile inputs, with totality/bounded-progress oracle",
   text="Hostile formats, texts and durations (truncated/doubled directives, 255/256/257-byte boundaries, huge numbers, "
        "binary bytes, every special-format name, near-miss names) through every parser/formatter entry of the library "
        "(dutdrv P/F/R/A/C/U/L/B/V requests, small and exact caller buffers) and through all 10 tools' option surfaces; "
        "well-formed compound dgrep expressions, literal text ending within a few bytes of the printers' buffers, TZMAP_DIR "
        "values around PATH_MAX; every process must end with a normal exit status inside its CPU budget and without a sanitizer/probe report; a "
        "sample of the tool invocations and driver batches runs on the uninstrumented build under valgrind memcheck.",
   note=SAN + "a slow-but-terminating request is re-run with a larger budget before it is called a hang. " + TB, ref="3 C10"),
 "C15": dict(cat="exploration", tech="reference-model monitor (arithmetic-progression oracle) over complete dseq outputs + bounded-progress watchdog + ASan/UBSan",
   text="dseq FIRST [INC] LAST for dates in ymd/ywd/ymcw/yd, times and date-times; INC in d/w/mo/y/b/h/m/s, compound (1h30m, "
        "1d12h), >= 24h, zero, wrong direction and inapplicable units; 8 skip sets; --alt-inc; --compute-from-last; guessed increments. "
        "The whole output is compared line by line with {FIRST + k*INC}; an output beyond the CPU/size cap is 'endless'.",
   note=SAN + "time bounds with FIRST == LAST may give one element or a full circle; compound month increments and one-argument forms are not judged. " + TB, ref="3 C15"),
 "C16": dict(cat="exploration", tech="reference-model monitor (nearest-candidate oracle on ordinals/seconds) + oracle-free idempotence and strictness monitors over dround outputs + ASan/UBSan",
   text="dround [-n] with weekday, day-of-month, month, quarter, ISO-week, hour/minute/second value targets and /N co-classes "
        "(h, m, s, 1d, 1b, mo, q, y), both directions, one and two specs, on ymd/ywd/yd/ymcw dates, date-times, times and epoch seconds, printed "
        "natively or in another calendar; each result compared with the nearest candidate on the requested side; the tool's "
        "output rounded again must be unchanged; -n results must differ from the input.",
   note=SAN + "month-based targets on ymcw and business-day-of-month targets are not judged. " + TB, ref="3 C16"),
 "C17": dict(cat="exploration", tech="reference-model monitor (Boolean evaluation of the generated tree) over complete dgrep outputs + invariant probe H5 after simplification + ASan/UBSan",
   text="dgrep [-v] with expressions rendered from random and shaped trees (left/right chains, conjunctions of disjunctions, "
        "negated junctions, multiple negation, && over || at depth; atoms: dates, times, date-times, ten specifiers, six "
        "operators) over generated lines (text around dates, no date, two dates, CR); the output must be exactly the lines "
        "the tree selects, in order; malformed/huge/deep expressions must end with an exit status and no report.",
   note=SAN + "probe H5 (src/dexpr.c): no negation flag left and no node reachable twice after dexpr_simplify. " + TB, ref="3 C17"),
 "C18": dict(cat="exploration", tech="reference-model monitor over complete outputs + differential monitor across injected read() schedules (shimmed read, real pipe) + invariant probe H4 + ASan/UBSan on the exact-size window",
   text="dconv -S [-f], dadd -S, dround -S and dgrep over generated byte streams (planted dates in arbitrary non-digit bytes; line "
        "ends/dates at 4096 boundaries; lines of 1000..70000 bytes; 16383..40000 lines; 17 MiB; one line of 3..15 MiB; CRLF, "
        "mixed, no final line feed): the output must equal the model byte for byte, and the same stream cut into other read() "
        "results (1..4095 bytes, random, hazard cuts, a real pipe with pauses) must give the same bytes and status, and a "
        "stream without final line feed the output of the same stream with it (tails cut inside a date); a read() that fails "
        "after K bytes (injected) must give the output of a K-byte stream.",
   note=SAN + "probe H4 (src/prchunk.c): window offsets ordered, bytes out + held == bytes read on every fill; lines beyond the 16 MiB window are outside the judged domain. " + TB, ref="3 C18"),
 "C20": dict(cat="exploration", tech="differential monitor across injected configurations (environment + clock injected at gettimeofday()/time() by the shim) + name-table oracle for locale pairs + ASan/UBSan",
   text="38 invocation templates over all tools (18 fully specified, 20 underspecified with --base) each run under the baseline "
        "and under random TZ (15 values), LANG/LC_ALL/LC_TIME/LANGUAGE (12 values) and clock (20 instants + random + real) "
        "settings: stdout and exit status must be identical, the responsible setting is isolated on a difference; positive "
        "control that the injected clock is seen; --from-locale A / --locale B pairs (quick: 500 random pairs, thorough: all 226 x 274 "
        "ordered pairs) in either order and spelling in dconv, dadd, dround, dseq against data/locale.",
   note=SAN + "the clock is injected at the libc boundary (shim), TZ/LANG through the real environment; inputs that leave fields open without --base follow the clock by design. " + TB, ref="3 C20"),
})

NOT_YET = {}


def main():
    props = [json.loads(l) for l in open(os.path.join(HERE, "properties.jsonl"))]
    checks = []
    na = []
    hooks_commits = []
    try:
        out = subprocess.run(["git", "-C", "/repo", "log", "--format=%h %s"], capture_output=True, text=True).stdout
        hooks_commits = [l.split()[0] for l in out.splitlines() if l.split(" ", 1)[1].startswith("verif-hook:")]
    except Exception:
        pass
    for p in props:
        i = p["id"]
        if i in P and os.path.exists(os.path.join(HERE, "dverif", "props", i.lower() + ".py")):
            e = P[i]
            checks.append(dict(
                property_id=i,
                quick_cmd="./check %s --tier quick" % i,
                thorough_cmd="./check %s --tier thorough" % i,
                evidence_file="/verif/evidence/%s.json" % i,
                replay_cmd_template="./check replay {path}",
                engine="dverif",
                level_claimed=dict(category=e["cat"], text=e["text"], design_ref="DESIGN.md section " + e["ref"]),
                level_note=e["note"],
                technique=e["tech"]))
        else:
            na.append(dict(property_id=i, reason=NOT_YET.get(i, "check not built yet in this round (runtime monitoring applies; see DESIGN.md section 3)")))
    m = dict(
        version=1,
        setup_cmd="python3 -m dverif.build san && python3 -m dverif.selftest",
        hooks=dict(guard="DATEUTILS_VERIF",
                   enable="dverif/build.py compiles /repo's working tree with -DDATEUTILS_VERIF and force-includes shim/verif_shim.h; "
                          "probe implementations live in /verif/shim/verif_rt.c",
                   baseline_off_cmd="cd /repo && make -j8 && make -k check -j8",
                   source_commits=hooks_commits, add_only=True),
        engines=[dict(name="dverif", path="/verif/dverif", serves_properties=[c["property_id"] for c in checks],
                      kind_free_text="runtime monitoring: sanitizer builds of the real tools + thin C drivers, seeded "
                                     "workload generators, Python reference-model / differential / conservation monitors")],
        checks=checks,
        not_applicable=na,
        notes="Known findings (genuine defects recorded, not repaired) are in /verif/KNOWN_FINDINGS.txt; seeded changes used "
              "to test the monitors are in /verif/seeded/. VERIF_SEED / VERIF_TIER are honoured.")
    json.dump(m, open(os.path.join(HERE, "MANIFEST.json"), "w"), indent=1)
    print("MANIFEST.json: %d checks, %d not_applicable" % (len(checks), len(na)))


if __name__ == "__main__":
    main()
