/* force-included (-include) into every dateutils translation unit that the
 * verification builds compile.  Renames a handful of libc entry points at
 * compile time so that (a) file images and the prchunk window become
 * exact-size ASan-tracked heap blocks, (b) the read(2) schedule and the
 * wall clock are under the harness' control.  No repo edits needed. */
#ifndef VERIF_SHIM_H_
#define VERIF_SHIM_H_
#if !defined __ASSEMBLER__
#include <stddef.h>
#include <stdint.h>
#include <stdlib.h>
#include <unistd.h>
#include <time.h>
#include <sys/types.h>
#include <sys/time.h>
#include <sys/mman.h>
#include <sys/stat.h>

extern void *verif_mmap(void *addr, size_t len, int prot, int flags, int fd, off_t off);
extern int verif_munmap(void *addr, size_t len);
extern ssize_t verif_read(int fd, void *buf, size_t count);
extern int verif_gettimeofday(struct timeval *tv, void *tz);
extern time_t verif_time(time_t *t);
extern char *verif_getenv(const char *name);
/* invariant probes called from -DDATEUTILS_VERIF hooks in the repo */
extern void dateutils_verif_probe(const char *site, long a, long b, long c, long d);

#define mmap verif_mmap
#define munmap verif_munmap
#define read verif_read
#define gettimeofday verif_gettimeofday
#define time verif_time
#define getenv verif_getenv
#endif	/* !__ASSEMBLER__ */
#endif	/* VERIF_SHIM_H_ */
