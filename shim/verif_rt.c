/* runtime half of the verification shims; linked into every binary that
 * /verif/dverif/build.py produces.  Compiled WITHOUT verif_shim.h. */
#define _GNU_SOURCE
#include <stddef.h>
#include <stdint.h>
#include <stdlib.h>
#include <stdio.h>
#include <string.h>
#include <errno.h>
#include <unistd.h>
#include <time.h>
#include <sys/types.h>
#include <sys/time.h>
#include <sys/mman.h>
#include <sys/stat.h>

/* ---- probe log ------------------------------------------------------- */
#define NSITES 64
static struct {
	const char *name;
	unsigned long cnt;
} sites[NSITES];
static int probe_atexit_set;
static unsigned long n_mmap_file, n_mmap_anon, n_read, n_read_bytes, n_clock, n_env;
static char envseen[512];

static void
probe_dump(void)
{
	const char *fn = getenv("VERIF_PROBE_LOG");
	FILE *fp;

	if (fn == NULL || (fp = fopen(fn, "a")) == NULL) {
		return;
	}
	fprintf(fp, "P mmap_file=%lu mmap_anon=%lu read=%lu read_bytes=%lu clock=%lu env=%lu envnames=%s",
		n_mmap_file, n_mmap_anon, n_read, n_read_bytes, n_clock, n_env,
		*envseen ? envseen : "-");
	for (int i = 0; i < NSITES && sites[i].name; i++) {
		fprintf(fp, " %s=%lu", sites[i].name, sites[i].cnt);
	}
	fputc('\n', fp);
	fclose(fp);
	return;
}

static void
probe_init(void)
{
	if (!probe_atexit_set) {
		probe_atexit_set = 1;
		if (getenv("VERIF_PROBE_LOG") != NULL) {
			atexit(probe_dump);
		}
	}
	return;
}

void
verif_count(const char *site)
{
	probe_init();
	for (int i = 0; i < NSITES; i++) {
		if (sites[i].name == NULL) {
			sites[i].name = site;
		}
		if (sites[i].name == site || !strcmp(sites[i].name, site)) {
			sites[i].cnt++;
			return;
		}
	}
	return;
}

void
verif_fail(const char *site, const char *what, long a, long b, long c, long d)
{
	fflush(stdout);
	fprintf(stderr, "VERIF-INVARIANT site=%s what=%s a=%ld b=%ld c=%ld d=%ld\n",
		site, what, a, b, c, d);
	fflush(stderr);
	abort();
}

/* ---- mmap/munmap: exact-size heap blocks ----------------------------- */
void *
verif_mmap(void *addr, size_t len, int prot, int flags, int fd, off_t off)
{
	char *p;

	(void)addr, (void)prot;
	probe_init();
	if (len == 0) {
		errno = EINVAL;
		return MAP_FAILED;
	}
	if (flags & MAP_ANONYMOUS) {
		n_mmap_anon++;
		if ((p = calloc(1, len)) == NULL) {
			errno = ENOMEM;
			return MAP_FAILED;
		}
		return p;
	}
	n_mmap_file++;
	if ((p = malloc(len)) == NULL) {
		errno = ENOMEM;
		return MAP_FAILED;
	}
	for (size_t tot = 0; tot < len;) {
		ssize_t n = pread(fd, p + tot, len - tot, off + (off_t)tot);
		if (n < 0) {
			free(p);
			return MAP_FAILED;
		} else if (n == 0) {
			/* file shorter than the mapping: a real mapping would
			 * SIGBUS beyond EOF, we keep the block exact-size to
			 * what exists so ASan reports the access */
			char *q = malloc(tot ? tot : 1);
			if (q == NULL) {
				free(p);
				return MAP_FAILED;
			}
			memcpy(q, p, tot);
			free(p);
			return q;
		}
		tot += (size_t)n;
	}
	return p;
}

int
verif_munmap(void *addr, size_t len)
{
	(void)len;
	free(addr);
	return 0;
}

/* ---- read: controlled schedule --------------------------------------- */
static int sched_init;
static enum { S_ALL, S_K, S_RAND, S_CUTS } sched_kind;
static size_t sched_k;
static uint64_t sched_rng;
static size_t *cuts;
static size_t ncuts;
static size_t icut;
static size_t stream_pos;

static void
sched_setup(void)
{
	const char *s = getenv("VERIF_READ_SCHED");

	sched_init = 1;
	sched_kind = S_ALL;
	if (s == NULL || !strcmp(s, "all")) {
		return;
	} else if (!strncmp(s, "k:", 2)) {
		sched_kind = S_K;
		sched_k = strtoul(s + 2, NULL, 10);
		if (sched_k == 0) {
			sched_k = 1;
		}
	} else if (!strncmp(s, "rand:", 5)) {
		sched_kind = S_RAND;
		sched_rng = strtoull(s + 5, NULL, 10) * 2654435761ULL + 88172645463325252ULL;
	} else if (!strncmp(s, "cuts:", 5)) {
		sched_kind = S_CUTS;
		const char *p = s + 5;
		size_t n = 1;
		for (const char *q = p; *q; q++) {
			n += *q == ',';
		}
		cuts = calloc(n + 1, sizeof(*cuts));
		while (*p) {
			char *ep;
			cuts[ncuts++] = strtoul(p, &ep, 10);
			p = *ep == ',' ? ep + 1 : ep;
			if (ep == p && *p) {
				break;
			}
		}
	}
	return;
}

static uint64_t
xorshift(void)
{
	sched_rng ^= sched_rng << 13;
	sched_rng ^= sched_rng >> 7;
	sched_rng ^= sched_rng << 17;
	return sched_rng;
}

ssize_t
verif_read(int fd, void *buf, size_t count)
{
	size_t lim = count;
	size_t tot = 0;
	char *bounce;

	probe_init();
	if (!sched_init) {
		sched_setup();
	}
	switch (sched_kind) {
	case S_ALL:
		break;
	case S_K:
		if (lim > sched_k) {
			lim = sched_k;
		}
		break;
	case S_RAND: {
		uint64_t r = xorshift();
		size_t l;
		switch (r & 7U) {
		case 0:
			l = 1;
			break;
		case 1:
			l = count;
			break;
		case 2:
			l = 1 + (r >> 8) % 16;
			break;
		default:
			l = 1 + (r >> 8) % (count ? count : 1);
			break;
		}
		if (l < lim) {
			lim = l;
		}
		break;
	}
	case S_CUTS:
		while (icut < ncuts && cuts[icut] <= stream_pos) {
			icut++;
		}
		if (icut < ncuts && cuts[icut] - stream_pos < lim) {
			lim = cuts[icut] - stream_pos;
		}
		break;
	}
	/* VERIF_READ_ERR=K: deliver exactly K bytes of the stream, from then
	 * on every read() fails with EIO */
	{
		static int err_init;
		static int err_on;
		static size_t err_at;

		if (!err_init) {
			const char *e = getenv("VERIF_READ_ERR");

			err_init = 1;
			if (e != NULL && *e) {
				err_on = 1;
				err_at = strtoul(e, NULL, 10);
			}
		}
		if (err_on && fd == 0) {
			if (stream_pos >= err_at) {
				errno = EIO;
				return -1;
			} else if (err_at - stream_pos < lim) {
				lim = err_at - stream_pos;
			}
		}
	}
	if (lim == 0) {
		return read(fd, buf, 0);
	}
	/* read into an exact-size bounce buffer, then memcpy so that ASan
	 * checks the destination range actually written */
	if ((bounce = malloc(lim)) == NULL) {
		errno = ENOMEM;
		return -1;
	}
	if (sched_kind == S_ALL) {
		ssize_t n = read(fd, bounce, lim);
		if (n < 0) {
			free(bounce);
			return n;
		}
		tot = (size_t)n;
	} else {
		/* deliver exactly LIM bytes unless EOF comes first, so the
		 * schedule is independent of pipe timing */
		while (tot < lim) {
			ssize_t n = read(fd, bounce + tot, lim - tot);
			if (n < 0) {
				if (errno == EINTR) {
					continue;
				}
				free(bounce);
				return n;
			} else if (n == 0) {
				break;
			}
			tot += (size_t)n;
		}
	}
	if (tot) {
		memcpy(buf, bounce, tot);
	}
	free(bounce);
	stream_pos += tot;
	n_read++;
	n_read_bytes += tot;
	return (ssize_t)tot;
}

unsigned long
verif_read_bytes(void)
{
	return n_read_bytes;
}

/* ---- clock ------------------------------------------------------------ */
static int
fake_now(time_t *res)
{
	const char *s = getenv("VERIF_FAKE_NOW");

	if (s == NULL || !*s) {
		return 0;
	}
	*res = (time_t)strtoll(s, NULL, 10);
	return 1;
}

int
verif_gettimeofday(struct timeval *tv, void *tz)
{
	time_t t;

	probe_init();
	n_clock++;
	if (fake_now(&t)) {
		tv->tv_sec = t;
		tv->tv_usec = 0;
		return 0;
	}
	return gettimeofday(tv, tz);
}

time_t
verif_time(time_t *res)
{
	time_t t;

	probe_init();
	n_clock++;
	if (fake_now(&t)) {
		if (res != NULL) {
			*res = t;
		}
		return t;
	}
	return time(res);
}

char *
verif_getenv(const char *name)
{
	probe_init();
	n_env++;
	if (strlen(envseen) + strlen(name) + 2 < sizeof(envseen) &&
	    strstr(envseen, name) == NULL) {
		if (*envseen) {
			strcat(envseen, ",");
		}
		strcat(envseen, name);
	}
	return getenv(name);
}

/* ---- invariant probes (hooks in the repo call this) -------------------- */
void
dateutils_verif_probe(const char *site, long a, long b, long c, long d)
{
	verif_count(site);
	if (!strcmp(site, "zif_type_idx")) {
		/* a = type index about to be used, b = number of types */
		if (a < 0 || a >= b) {
			verif_fail(site, "type-index-out-of-range", a, b, c, d);
		}
	} else if (!strcmp(site, "zif_trno")) {
		/* a = transition index about to be used, b = number of transitions */
		if (b > 0 && (a < 0 || a >= b)) {
			verif_fail(site, "transition-index-out-of-range", a, b, c, d);
		}
	} else if (!strcmp(site, "zif_offs_ret")) {
		/* a = t, b = cache.prev, c = cache.next, d = trno
		 * prev == next is the code's way of saying "before the first
		 * transition, nothing to cache" (outside the property's domain) */
		if (a >= 140737488355327LL || a < -140737488355328LL) {
			/* outside the 48-bit stamp domain (garbage date like
			 * 1601-00-30 converted to an instant): ranges top out
			 * at STAMP_MAX by design */
			return;
		}
		if (b != c && !(b <= a && a < c)) {
			verif_fail(site, "cached-range-excludes-instant", a, b, c, d);
		}
	} else if (!strcmp(site, "tzm_rec")) {
		/* a = record offset, b = size of the key area */
		if (a < 0 || a >= b) {
			verif_fail(site, "record-outside-key-area", a, b, c, d);
		}
	} else if (!strcmp(site, "tzm_ret")) {
		/* a = zone name offset, b = size of zone name pool */
		if (a < 0 || a >= b) {
			verif_fail(site, "zone-offset-outside-pool", a, b, c, d);
		}
	} else if (!strcmp(site, "prchunk_fill")) {
		/* a = off, b = bno, c = MAP_LEN, d = tot_lno */
		if (!(a >= 0 && a <= b && b <= c)) {
			verif_fail(site, "window-offsets", a, b, c, d);
		}
		if (d < 0 || d > 16384) {
			verif_fail(site, "line-count", a, b, c, d);
		}
	} else if (!strcmp(site, "prchunk_conserve")) {
		/* a = bytes yielded as lines so far + held (bno - off at return),
		 * b = bytes read so far according to the code's own count */
		if ((unsigned long)b != n_read_bytes) {
			verif_fail(site, "bytes-read-mismatch", a, b, (long)n_read_bytes, d);
		}
		if (a != b) {
			verif_fail(site, "bytes-not-conserved", a, b, (long)n_read_bytes, d);
		}
	} else if (!strcmp(site, "dexpr_shared")) {
		verif_fail(site, "node-reachable-twice", a, b, c, d);
	} else if (!strcmp(site, "dexpr_shape")) {
		/* a = 1: negation flag left on a node of type b, a = 2: junction without a child */
		verif_fail(site, a == 1 ? "negation-flag-left-after-simplify" : "junction-without-child", a, b, c, d);
	}
	return;
}
