#!/bin/bash
# ./mutcheck2.sh <worktree> <k> <prop>... : apply mutant k inside the scratch worktree and run the quick checks against
# THAT tree (VERIF_REPO), leaving /repo alone.  Evidence written by such a run must be regenerated against /repo afterwards.
set -u
wt=$1; k=$2; shift 2
cd "$wt" || exit 2
git checkout -q -- . ; git apply mutant$k.diff || { echo "patch does not apply"; exit 2; }
trap 'git -C "$wt" checkout -q -- .' EXIT
cd /verif
for p in "$@"; do
  out=$(VERIF_REPO=$wt ./check "$p" 2>&1); rc=$?
  echo "== $p rc=$rc (mutant $k of $wt)"
  echo "$out" | grep -E '^(VIOLATION|  sig=|HARNESS|C[0-9]+:)' | cut -c1-260 | head -${MUTLINES:-8}
done
